//! A shim SQLite VFS, registered as the process default, wrapping the `unix` VFS (DESIGN.md 2.5).
//! It sees every open/write/truncate/sync/delete the sqlite crate causes - without any change to
//! that crate - and can (a) record them, for crash-image construction, and (b) make the n-th call
//! of a kind fail, for file-level fault injection.  Files outside the tracked directory pass
//! through untouched.

use libsqlite3_sys as ffi;
use std::ffi::CStr;
use std::os::raw::{c_char, c_int, c_void};
use std::path::{Path, PathBuf};
use std::sync::{Arc, Mutex, OnceLock};

#[derive(Clone, Debug, PartialEq, Eq)]
pub enum OpK {
    Create,
    Write { off: u64, data: Vec<u8> },
    Truncate { size: u64 },
    Sync,
    Delete,
}

#[derive(Clone, Debug, PartialEq, Eq)]
pub struct FileOp {
    /// file name relative to the tracked directory
    pub file: String,
    pub k: OpK,
}

#[derive(Clone, Copy, Debug, PartialEq, Eq, Hash, serde::Serialize, serde::Deserialize)]
pub enum Kind {
    Read,
    Write,
    Sync,
    Truncate,
    Open,
    Delete,
    Lock,
    ShmMap,
    /// not a file call: SQLite consults the authorizer while it compiles a statement; the n-th
    /// consultation inside the request is refused, so that statement fails (SQLITE_AUTH) - the
    /// failure of one SQL statement whatever its pages are, cached or not
    Statement,
}

pub const KINDS: [Kind; 9] = [Kind::Read, Kind::Write, Kind::Sync, Kind::Truncate, Kind::Open, Kind::Delete, Kind::Lock, Kind::ShmMap, Kind::Statement];

#[derive(Clone, Copy, Debug, PartialEq, Eq, Hash, serde::Serialize, serde::Deserialize)]
pub struct Plan {
    pub kind: Kind,
    /// fail the n-th call of that kind (counted from arming, tracked files only)
    pub nth: u32,
    /// writes only: write the first half, then fail
    pub short: bool,
    /// writes only: report "disk full" instead of an I/O error
    pub full: bool,
}

#[derive(Default)]
pub struct RecState {
    pub ops: Vec<FileOp>,
    pub recording: bool,
    pub plans: Vec<Plan>,
    pub counters: [u32; 9],
    pub injected: Vec<(Kind, u32, String)>,
    /// how many calls of each kind were seen while armed (tells the generator what is reachable)
    pub seen: [u32; 9],
    /// injected lock contention: this many further attempts to take the write lock (WAL write
    /// lock, or RESERVED and above on the database file) are answered SQLITE_BUSY, as if another
    /// connection held it
    pub busy_left: u32,
    pub busy_hits: u32,
    /// SQLite's busy handler sleeps through the VFS: do not really sleep (its time-out accounting
    /// goes by the number of attempts, so a 5 s time-out elapses at once)
    pub virtual_sleep: bool,
}

pub struct Recorder {
    pub dir: PathBuf,
    pub state: Mutex<RecState>,
}

impl Recorder {
    pub fn pause(&self) {
        self.state.lock().unwrap().recording = false;
    }
    pub fn resume(&self) {
        self.state.lock().unwrap().recording = true;
    }
    pub fn len(&self) -> usize {
        self.state.lock().unwrap().ops.len()
    }
    pub fn arm(&self, plans: Vec<Plan>) {
        let mut s = self.state.lock().unwrap();
        s.plans = plans;
        s.counters = [0; 9];
        s.seen = [0; 9];
        s.injected.clear();
    }
    pub fn set_busy(&self, attempts: u32) {
        let mut s = self.state.lock().unwrap();
        s.busy_left = attempts;
        s.busy_hits = 0;
        s.virtual_sleep = attempts > 0;
    }
    /// ends the injected contention; returns how many lock attempts were refused
    pub fn clear_busy(&self) -> u32 {
        let mut s = self.state.lock().unwrap();
        s.busy_left = 0;
        s.virtual_sleep = false;
        s.busy_hits
    }
    pub fn disarm(&self) -> (Vec<(Kind, u32, String)>, [u32; 9]) {
        let mut s = self.state.lock().unwrap();
        s.plans.clear();
        (std::mem::take(&mut s.injected), s.seen)
    }
}

struct Global {
    real: *mut ffi::sqlite3_vfs,
    rec: Mutex<Option<Arc<Recorder>>>,
}
unsafe impl Send for Global {}
unsafe impl Sync for Global {}

static GLOBAL: OnceLock<Global> = OnceLock::new();

fn global() -> &'static Global {
    GLOBAL.get().expect("vfs shim not installed")
}

fn current() -> Option<Arc<Recorder>> {
    GLOBAL.get().and_then(|g| g.rec.lock().unwrap().clone())
}

/// Install the shim as the default VFS (once per process) and start tracking `dir`.
pub fn track(dir: &Path) -> Arc<Recorder> {
    install();
    let dir = std::fs::canonicalize(dir).unwrap_or_else(|_| dir.to_path_buf());
    let r = Arc::new(Recorder { dir, state: Mutex::new(RecState { recording: true, ..Default::default() }) });
    *global().rec.lock().unwrap() = Some(r.clone());
    r
}

pub fn untrack() {
    if let Some(g) = GLOBAL.get() {
        *g.rec.lock().unwrap() = None;
    }
}

#[repr(C)]
struct ShimFile {
    base: ffi::sqlite3_file,
    real: *mut ffi::sqlite3_file,
    /// index into NAMES, or -1 if the file is not tracked
    name: i32,
}

static NAMES: Mutex<Vec<String>> = Mutex::new(Vec::new());

fn name_of(f: *mut ffi::sqlite3_file) -> Option<String> {
    let sf = f as *mut ShimFile;
    let i = unsafe { (*sf).name };
    if i < 0 {
        None
    } else {
        NAMES.lock().unwrap().get(i as usize).cloned()
    }
}

fn real(f: *mut ffi::sqlite3_file) -> *mut ffi::sqlite3_file {
    unsafe { (*(f as *mut ShimFile)).real }
}

/// Should this call fail?  Counts the call; returns the plan that fires.
fn fire(rec: &Recorder, kind: Kind, file: &str) -> Option<Plan> {
    let mut s = rec.state.lock().unwrap();
    let ki = KINDS.iter().position(|k| *k == kind).unwrap();
    if s.plans.is_empty() {
        return None;
    }
    let n = s.counters[ki];
    s.counters[ki] += 1;
    s.seen[ki] += 1;
    if let Some(p) = s.plans.iter().find(|p| p.kind == kind && p.nth == n).copied() {
        s.injected.push((kind, n, file.to_string()));
        Some(p)
    } else {
        None
    }
}

fn record(rec: &Recorder, file: &str, k: OpK) {
    let mut s = rec.state.lock().unwrap();
    if s.recording {
        s.ops.push(FileOp { file: file.to_string(), k });
    }
}

macro_rules! real_method {
    ($f:expr, $m:ident) => {
        (*(*real($f)).pMethods).$m.expect(concat!("real ", stringify!($m)))
    };
}

unsafe extern "C" fn x_close(f: *mut ffi::sqlite3_file) -> c_int {
    let r = real(f);
    let rc = if !(*r).pMethods.is_null() { real_method!(f, xClose)(r) } else { ffi::SQLITE_OK };
    rc
}

unsafe extern "C" fn x_read(f: *mut ffi::sqlite3_file, buf: *mut c_void, amt: c_int, off: ffi::sqlite3_int64) -> c_int {
    if let (Some(rec), Some(n)) = (current(), name_of(f)) {
        if fire(&rec, Kind::Read, &n).is_some() {
            return ffi::SQLITE_IOERR_READ;
        }
    }
    real_method!(f, xRead)(real(f), buf, amt, off)
}

unsafe extern "C" fn x_write(f: *mut ffi::sqlite3_file, buf: *const c_void, amt: c_int, off: ffi::sqlite3_int64) -> c_int {
    if let (Some(rec), Some(n)) = (current(), name_of(f)) {
        if let Some(p) = fire(&rec, Kind::Write, &n) {
            if p.short && amt > 1 {
                let half = amt / 2;
                let rc = real_method!(f, xWrite)(real(f), buf, half, off);
                if rc == ffi::SQLITE_OK {
                    let data = std::slice::from_raw_parts(buf as *const u8, half as usize).to_vec();
                    record(&rec, &n, OpK::Write { off: off as u64, data });
                }
            }
            return if p.full { ffi::SQLITE_FULL } else { ffi::SQLITE_IOERR_WRITE };
        }
        let rc = real_method!(f, xWrite)(real(f), buf, amt, off);
        if rc == ffi::SQLITE_OK {
            let data = std::slice::from_raw_parts(buf as *const u8, amt as usize).to_vec();
            record(&rec, &n, OpK::Write { off: off as u64, data });
        }
        return rc;
    }
    real_method!(f, xWrite)(real(f), buf, amt, off)
}

unsafe extern "C" fn x_truncate(f: *mut ffi::sqlite3_file, size: ffi::sqlite3_int64) -> c_int {
    if let (Some(rec), Some(n)) = (current(), name_of(f)) {
        if fire(&rec, Kind::Truncate, &n).is_some() {
            return ffi::SQLITE_IOERR_TRUNCATE;
        }
        let rc = real_method!(f, xTruncate)(real(f), size);
        if rc == ffi::SQLITE_OK {
            record(&rec, &n, OpK::Truncate { size: size as u64 });
        }
        return rc;
    }
    real_method!(f, xTruncate)(real(f), size)
}

unsafe extern "C" fn x_sync(f: *mut ffi::sqlite3_file, flags: c_int) -> c_int {
    if let (Some(rec), Some(n)) = (current(), name_of(f)) {
        if fire(&rec, Kind::Sync, &n).is_some() {
            return ffi::SQLITE_IOERR_FSYNC;
        }
        let rc = real_method!(f, xSync)(real(f), flags);
        if rc == ffi::SQLITE_OK {
            record(&rec, &n, OpK::Sync);
        }
        return rc;
    }
    real_method!(f, xSync)(real(f), flags)
}

unsafe extern "C" fn x_file_size(f: *mut ffi::sqlite3_file, p: *mut ffi::sqlite3_int64) -> c_int {
    real_method!(f, xFileSize)(real(f), p)
}

fn busy(rec: &Recorder) -> bool {
    let mut s = rec.state.lock().unwrap();
    if s.busy_left > 0 {
        s.busy_left -= 1;
        s.busy_hits += 1;
        true
    } else {
        false
    }
}

unsafe extern "C" fn x_lock(f: *mut ffi::sqlite3_file, l: c_int) -> c_int {
    if let (Some(rec), Some(n)) = (current(), name_of(f)) {
        if fire(&rec, Kind::Lock, &n).is_some() {
            return ffi::SQLITE_IOERR_LOCK;
        }
        if l >= ffi::SQLITE_LOCK_RESERVED && busy(&rec) {
            return ffi::SQLITE_BUSY;
        }
    }
    real_method!(f, xLock)(real(f), l)
}

unsafe extern "C" fn x_unlock(f: *mut ffi::sqlite3_file, l: c_int) -> c_int {
    real_method!(f, xUnlock)(real(f), l)
}

unsafe extern "C" fn x_check_reserved(f: *mut ffi::sqlite3_file, p: *mut c_int) -> c_int {
    real_method!(f, xCheckReservedLock)(real(f), p)
}

unsafe extern "C" fn x_file_control(f: *mut ffi::sqlite3_file, op: c_int, arg: *mut c_void) -> c_int {
    real_method!(f, xFileControl)(real(f), op, arg)
}

unsafe extern "C" fn x_sector_size(f: *mut ffi::sqlite3_file) -> c_int {
    real_method!(f, xSectorSize)(real(f))
}

unsafe extern "C" fn x_device_char(f: *mut ffi::sqlite3_file) -> c_int {
    real_method!(f, xDeviceCharacteristics)(real(f))
}

unsafe extern "C" fn x_shm_map(f: *mut ffi::sqlite3_file, pg: c_int, sz: c_int, ext: c_int, pp: *mut *mut c_void) -> c_int {
    if let (Some(rec), Some(n)) = (current(), name_of(f)) {
        if fire(&rec, Kind::ShmMap, &n).is_some() {
            return ffi::SQLITE_IOERR_SHMMAP;
        }
    }
    real_method!(f, xShmMap)(real(f), pg, sz, ext, pp)
}

unsafe extern "C" fn x_shm_lock(f: *mut ffi::sqlite3_file, off: c_int, n: c_int, flags: c_int) -> c_int {
    // offset 0 is the WAL write lock
    if off == 0 && (flags & ffi::SQLITE_SHM_LOCK) != 0 && (flags & ffi::SQLITE_SHM_EXCLUSIVE) != 0 {
        if let (Some(rec), Some(_)) = (current(), name_of(f)) {
            if busy(&rec) {
                return ffi::SQLITE_BUSY;
            }
        }
    }
    real_method!(f, xShmLock)(real(f), off, n, flags)
}

unsafe extern "C" fn x_shm_barrier(f: *mut ffi::sqlite3_file) {
    real_method!(f, xShmBarrier)(real(f))
}

unsafe extern "C" fn x_shm_unmap(f: *mut ffi::sqlite3_file, del: c_int) -> c_int {
    real_method!(f, xShmUnmap)(real(f), del)
}

unsafe extern "C" fn x_fetch(f: *mut ffi::sqlite3_file, off: ffi::sqlite3_int64, amt: c_int, pp: *mut *mut c_void) -> c_int {
    real_method!(f, xFetch)(real(f), off, amt, pp)
}

unsafe extern "C" fn x_unfetch(f: *mut ffi::sqlite3_file, off: ffi::sqlite3_int64, p: *mut c_void) -> c_int {
    real_method!(f, xUnfetch)(real(f), off, p)
}

static METHODS: ffi::sqlite3_io_methods = ffi::sqlite3_io_methods {
    iVersion: 3,
    xClose: Some(x_close),
    xRead: Some(x_read),
    xWrite: Some(x_write),
    xTruncate: Some(x_truncate),
    xSync: Some(x_sync),
    xFileSize: Some(x_file_size),
    xLock: Some(x_lock),
    xUnlock: Some(x_unlock),
    xCheckReservedLock: Some(x_check_reserved),
    xFileControl: Some(x_file_control),
    xSectorSize: Some(x_sector_size),
    xDeviceCharacteristics: Some(x_device_char),
    xShmMap: Some(x_shm_map),
    xShmLock: Some(x_shm_lock),
    xShmBarrier: Some(x_shm_barrier),
    xShmUnmap: Some(x_shm_unmap),
    xFetch: Some(x_fetch),
    xUnfetch: Some(x_unfetch),
};

fn tracked_name(z: *const c_char) -> Option<(Arc<Recorder>, String)> {
    if z.is_null() {
        return None;
    }
    let rec = current()?;
    let p = unsafe { CStr::from_ptr(z) }.to_string_lossy().into_owned();
    let p = Path::new(&p);
    let rel = p.strip_prefix(&rec.dir).ok()?;
    Some((rec, rel.to_string_lossy().into_owned()))
}

unsafe extern "C" fn v_open(_v: *mut ffi::sqlite3_vfs, z: ffi::sqlite3_filename, f: *mut ffi::sqlite3_file, flags: c_int, out: *mut c_int) -> c_int {
    let g = global();
    let sf = f as *mut ShimFile;
    let realf = (f as *mut u8).add(shim_header_size()) as *mut ffi::sqlite3_file;
    (*sf).base.pMethods = std::ptr::null();
    (*sf).real = realf;
    (*sf).name = -1;
    let tracked = tracked_name(z);
    let mut existed = true;
    if let Some((rec, n)) = &tracked {
        existed = rec.dir.join(n).exists();
        if fire(rec, Kind::Open, n).is_some() {
            return ffi::SQLITE_CANTOPEN;
        }
    }
    let rc = (*g.real).xOpen.unwrap()(g.real, z, realf, flags, out);
    if rc == ffi::SQLITE_OK {
        (*sf).base.pMethods = &METHODS;
        if let Some((rec, n)) = tracked {
            let mut names = NAMES.lock().unwrap();
            let idx = match names.iter().position(|x| *x == n) {
                Some(i) => i,
                None => {
                    names.push(n.clone());
                    names.len() - 1
                }
            };
            (*sf).name = idx as i32;
            drop(names);
            if !existed {
                record(&rec, &n, OpK::Create);
            }
        }
    }
    rc
}

unsafe extern "C" fn v_delete(_v: *mut ffi::sqlite3_vfs, z: *const c_char, sync_dir: c_int) -> c_int {
    let g = global();
    if let Some((rec, n)) = tracked_name(z) {
        if fire(&rec, Kind::Delete, &n).is_some() {
            return ffi::SQLITE_IOERR_DELETE;
        }
        let rc = (*g.real).xDelete.unwrap()(g.real, z, sync_dir);
        if rc == ffi::SQLITE_OK {
            record(&rec, &n, OpK::Delete);
        }
        return rc;
    }
    (*g.real).xDelete.unwrap()(g.real, z, sync_dir)
}

unsafe extern "C" fn v_access(_v: *mut ffi::sqlite3_vfs, z: *const c_char, flags: c_int, out: *mut c_int) -> c_int {
    let g = global();
    (*g.real).xAccess.unwrap()(g.real, z, flags, out)
}
unsafe extern "C" fn v_full_pathname(_v: *mut ffi::sqlite3_vfs, z: *const c_char, n: c_int, out: *mut c_char) -> c_int {
    let g = global();
    (*g.real).xFullPathname.unwrap()(g.real, z, n, out)
}
unsafe extern "C" fn v_randomness(_v: *mut ffi::sqlite3_vfs, n: c_int, out: *mut c_char) -> c_int {
    let g = global();
    (*g.real).xRandomness.unwrap()(g.real, n, out)
}
unsafe extern "C" fn v_sleep(_v: *mut ffi::sqlite3_vfs, us: c_int) -> c_int {
    if let Some(rec) = current() {
        if rec.state.lock().unwrap().virtual_sleep {
            return us;
        }
    }
    let g = global();
    (*g.real).xSleep.unwrap()(g.real, us)
}
unsafe extern "C" fn v_current_time(_v: *mut ffi::sqlite3_vfs, p: *mut f64) -> c_int {
    let g = global();
    (*g.real).xCurrentTime.unwrap()(g.real, p)
}
unsafe extern "C" fn v_get_last_error(_v: *mut ffi::sqlite3_vfs, n: c_int, p: *mut c_char) -> c_int {
    let g = global();
    (*g.real).xGetLastError.unwrap()(g.real, n, p)
}
unsafe extern "C" fn v_current_time64(_v: *mut ffi::sqlite3_vfs, p: *mut ffi::sqlite3_int64) -> c_int {
    let g = global();
    (*g.real).xCurrentTimeInt64.unwrap()(g.real, p)
}

fn shim_header_size() -> usize {
    (std::mem::size_of::<ShimFile>() + 15) & !15
}

/// Runs for every connection the process opens from now on: installs the authorizer through
/// which `Kind::Statement` faults are delivered.
unsafe extern "C" fn on_open(db: *mut ffi::sqlite3, _err: *mut *mut c_char, _api: *const ffi::sqlite3_api_routines) -> c_int {
    ffi::sqlite3_set_authorizer(db, Some(authorize), std::ptr::null_mut());
    ffi::SQLITE_OK
}

unsafe extern "C" fn authorize(_ud: *mut c_void, action: c_int, a3: *const c_char, _a4: *const c_char, _a5: *const c_char, _a6: *const c_char) -> c_int {
    // a refused ROLLBACK is not a failure of the request's work; everything else may fail
    if action == ffi::SQLITE_TRANSACTION && !a3.is_null() && CStr::from_ptr(a3).to_bytes().eq_ignore_ascii_case(b"ROLLBACK") {
        return ffi::SQLITE_OK;
    }
    if let Some(rec) = current() {
        if fire(&rec, Kind::Statement, "sql").is_some() {
            return ffi::SQLITE_DENY;
        }
    }
    ffi::SQLITE_OK
}

pub fn install() {
    GLOBAL.get_or_init(|| unsafe {
        ffi::sqlite3_initialize();
        ffi::sqlite3_auto_extension(Some(on_open));
        let real = ffi::sqlite3_vfs_find(std::ptr::null());
        assert!(!real.is_null(), "no default sqlite vfs");
        let name: &'static CStr = CStr::from_bytes_with_nul(b"tcss-shim\0").unwrap();
        let shim = Box::new(ffi::sqlite3_vfs {
            iVersion: 2,
            szOsFile: (*real).szOsFile + shim_header_size() as c_int,
            mxPathname: (*real).mxPathname,
            pNext: std::ptr::null_mut(),
            zName: name.as_ptr(),
            pAppData: std::ptr::null_mut(),
            xOpen: Some(v_open),
            xDelete: Some(v_delete),
            xAccess: Some(v_access),
            xFullPathname: Some(v_full_pathname),
            xDlOpen: None,
            xDlError: None,
            xDlSym: None,
            xDlClose: None,
            xRandomness: Some(v_randomness),
            xSleep: Some(v_sleep),
            xCurrentTime: Some(v_current_time),
            xGetLastError: Some(v_get_last_error),
            xCurrentTimeInt64: Some(v_current_time64),
            xSetSystemCall: None,
            xGetSystemCall: None,
            xNextSystemCall: None,
        });
        let shim = Box::leak(shim);
        let rc = ffi::sqlite3_vfs_register(shim, 1);
        assert_eq!(rc, ffi::SQLITE_OK, "registering the shim vfs");
        Global { real, rec: Mutex::new(None) }
    });
}

// ---------------------------------------------------------------------------------------------
// crash images from a recorded operation log

use std::collections::BTreeMap;

/// File contents (None = the file does not exist).
#[derive(Clone, Debug, Default, PartialEq, Eq)]
pub struct Image {
    pub files: BTreeMap<String, Vec<u8>>,
}

pub fn apply(img: &mut Image, op: &FileOp) {
    match &op.k {
        OpK::Create => {
            img.files.entry(op.file.clone()).or_default();
        }
        OpK::Write { off, data } => {
            let f = img.files.entry(op.file.clone()).or_default();
            let end = *off as usize + data.len();
            if f.len() < end {
                f.resize(end, 0);
            }
            f[*off as usize..end].copy_from_slice(data);
        }
        OpK::Truncate { size } => {
            let f = img.files.entry(op.file.clone()).or_default();
            f.resize(*size as usize, 0);
        }
        OpK::Sync => {}
        OpK::Delete => {
            img.files.remove(&op.file);
        }
    }
}

pub fn write_image(img: &Image, dir: &Path) -> std::io::Result<()> {
    std::fs::create_dir_all(dir)?;
    for (n, data) in &img.files {
        if n.ends_with("-shm") {
            continue;
        }
        std::fs::write(dir.join(n), data)?;
    }
    Ok(())
}

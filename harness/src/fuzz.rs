//! Entry points for the coverage-guided (libFuzzer) targets: bytes are decoded into the same
//! symbolic cases the proptest generators produce, and the same oracles run inside the target.
//! The property whose oracle is active comes from TCSS_FUZZ_PROP (one property per campaign, so
//! that one property's finding does not stop another's campaign).

use crate::case::{BytesSpec, Case, Cfg, IdRef, Op, N_CLASSES};
use crate::driver::{Backend, Via};
use crate::engine::{write_replay, Fail, Stats};
use crate::hist::{run_history, Oracles};
use crate::props::http::{self, BodyForm, CtForm, IdForm, RCase, RawReq, Route};
use crate::props::seq::HCase;
use arbitrary::{Arbitrary, Result, Unstructured};
use std::sync::Once;

static INIT: Once = Once::new();

fn init() {
    INIT.call_once(|| {
        unsafe {
            libsqlite3_sys::sqlite3_config(libsqlite3_sys::SQLITE_CONFIG_MEMSTATUS, 0 as std::os::raw::c_int);
        }
    });
}

fn prop() -> String {
    std::env::var("TCSS_FUZZ_PROP").unwrap_or_else(|_| "C02".to_string())
}

fn bytes_spec(u: &mut Unstructured, max: u32) -> Result<BytesSpec> {
    let len = if u.ratio(1, 2)? { u.int_in_range(1..=8u32)? } else { u.int_in_range(1..=max.max(1))? };
    Ok(BytesSpec { len, class: u.int_in_range(0..=N_CLASSES - 1)?, seed: u.int_in_range(0..=0xFFFFu32)? })
}

fn idref(u: &mut Unstructured, own: u8, n: u8) -> Result<IdRef> {
    let other = |k: u8| {
        let mut c = k % n;
        if c == own && n > 1 {
            c = (c + 1) % n;
        }
        c
    };
    Ok(match u.int_in_range(0..=15u8)? {
        0..=6 => IdRef::Latest(own),
        7 => IdRef::Nil,
        8 | 9 => IdRef::Ancestor(own, u.int_in_range(1..=8u8)?),
        10 => IdRef::Base(own),
        11 => IdRef::SnapVersion(own),
        12 => IdRef::Fresh(u.int_in_range(0..=7u32)?),
        13 => IdRef::Latest(other(u8::arbitrary(u)?)),
        14 => IdRef::Ancestor(other(u8::arbitrary(u)?), u.int_in_range(1..=5u8)?),
        _ => IdRef::Base(other(u8::arbitrary(u)?)),
    })
}

fn op(u: &mut Unstructured, n: u8) -> Result<Op> {
    let c = u.int_in_range(0..=n - 1)?;
    Ok(match u.int_in_range(0..=19u8)? {
        0..=8 => Op::AddVersion { c, parent: idref(u, c, n)?, data: bytes_spec(u, 64)? },
        9..=11 => Op::GetChild { c, parent: idref(u, c, n)? },
        12..=15 => Op::AddSnapshot { c, version: idref(u, c, n)?, data: bytes_spec(u, 64)? },
        16 | 17 => Op::GetSnapshot { c },
        18 => Op::Reopen,
        _ => Op::AgeSnapshot { c, days: u.int_in_range(0..=40u16)? },
    })
}

pub fn case(u: &mut Unstructured, max_ops: usize) -> Result<Case> {
    let n = u.int_in_range(1..=3u8)?;
    let cfg = Cfg { snapshot_days: u.int_in_range(0..=20i64)?, snapshot_versions: u.int_in_range(0..=12u32)? };
    let salt = u.int_in_range(0..=0xFFFFu32)?;
    let mut ops = vec![];
    for i in 0..n {
        if u.ratio(1, 3)? {
            ops.push(Op::AddVersion { c: i, parent: IdRef::Fresh(100 + i as u32 * 4 + u.int_in_range(0..=3u32)?), data: bytes_spec(u, 64)? });
        }
    }
    let k = u.int_in_range(1..=max_ops)?;
    for _ in 0..k {
        if u.is_empty() {
            break;
        }
        ops.push(op(u, n)?);
    }
    Ok(Case { cfg, salt, nclients: n, ops })
}

fn oracles(id: &str) -> Oracles {
    let mut o = Oracles::default();
    match id {
        "C01" => o.c01 = true,
        "C02" => o.c02 = true,
        "C07" => o.c07 = true,
        "C08" => o.c08 = true,
        "C10" => o.c10 = true,
        "C11" => o.c11 = true,
        "C12" => o.c12 = true,
        "C18" => o.c18 = true,
        _ => o.c02 = true,
    }
    o
}

/// libFuzzer target `history`: bytes -> history -> library driver on memory or SQLite.
pub fn history(data: &[u8]) {
    crate::clock::freeze();
    init();
    let mut u = Unstructured::new(data);
    let backend = match u.int_in_range(0..=7u8) {
        Ok(0..=5) => Backend::Mem,
        Ok(_) => Backend::Sqlite,
        Err(_) => return,
    };
    let Ok(c) = case(&mut u, 48) else { return };
    let id = prop();
    let mut st = Stats::default();
    st.frozen = true;
    let hc = HCase { backend, via: Via::Lib, case: c };
    if let Err(Fail::Violation(m)) = run_history(&hc.case, hc.backend, hc.via, oracles(&id), &mut st) {
        let path = write_replay(&id, "history", &hc, &m);
        println!("--- {id} [history]: {m}");
        println!("VIOLATION property={id} replay={}", path.display());
        crate::driver::cleanup_temp_root();
        panic!("property {id} violated; replay at {}", path.display());
    }
}

fn idform(u: &mut Unstructured, header: bool) -> Result<IdForm> {
    Ok(match u.int_in_range(0..=19u8)? {
        0..=9 => IdForm::Canonical,
        10 => IdForm::Upper,
        11 => IdForm::Simple,
        12 => IdForm::Braced,
        13 => IdForm::Urn,
        14 => IdForm::WrongLength,
        15 => IdForm::NonHex,
        16 => IdForm::Empty,
        17 => {
            if header {
                IdForm::Absent
            } else {
                IdForm::PercentHyphen
            }
        }
        18 => {
            if header {
                IdForm::NonAscii
            } else {
                IdForm::ExtraSegment
            }
        }
        _ => {
            if header {
                IdForm::Duplicate
            } else {
                IdForm::Canonical
            }
        }
    })
}

fn rawreq(u: &mut Unstructured, n: u8) -> Result<RawReq> {
    let route = match u.int_in_range(0..=21u8)? {
        0..=5 => Route::AddVersion,
        6..=9 => Route::GetChild,
        10..=14 => Route::AddSnapshot,
        15..=17 => Route::GetSnapshot,
        18 => Route::Index,
        19 | 20 => Route::NearMiss(u.int_in_range(0..=9u8)?),
        _ => Route::TrailingSlash(u.int_in_range(0..=12u8)?),
    };
    let method = if u.ratio(3, 4)? {
        match route {
            Route::AddVersion | Route::AddSnapshot => 1,
            _ => 0,
        }
    } else {
        u.int_in_range(0..=6u8)?
    };
    let client = u.int_in_range(0..=n - 1)?;
    let ct = match u.int_in_range(0..=15u8)? {
        0..=9 => CtForm::Right,
        10 => CtForm::RightWithParams,
        11 => CtForm::OtherCase,
        12 => CtForm::Wrong,
        13 => CtForm::Swapped,
        14 => CtForm::Absent,
        _ => CtForm::NonUtf8,
    };
    let body = match u.int_in_range(0..=14u8)? {
        0 | 1 => BodyForm::None,
        2 => BodyForm::EmptyChunks(u.int_in_range(0..=2u8)?),
        _ => {
            let k = u.int_in_range(0..=4usize)?;
            let mut sizes = vec![];
            for _ in 0..k {
                sizes.push(u.int_in_range(0..=600u32)?);
            }
            BodyForm::Data { spec: bytes_spec(u, 1500)?, sizes }
        }
    };
    Ok(RawReq { route, method, client, cid: idform(u, true)?, idref: idref(u, client, n)?, pid: idform(u, false)?, ct, body, announce_len: bool::arbitrary(u)?, http10: u.int_in_range(0..=6u8)? == 0, extra: if u.int_in_range(0..=2u8)? == 0 { u.int_in_range(1..=21u8)? } else { 0 }, spell: if u.int_in_range(0..=5u8)? == 0 { u.int_in_range(1..=39u8)? } else { 0 } })
}

/// libFuzzer target `http`: bytes -> prefix history + request-grammar sequence -> in-process service.
pub fn http(data: &[u8]) {
    crate::clock::freeze();
    init();
    let mut u = Unstructured::new(data);
    let backend = match u.int_in_range(0..=7u8) {
        Ok(0..=6) => Backend::Mem,
        Ok(_) => Backend::Sqlite,
        Err(_) => return,
    };
    let Ok(mut prefix) = case(&mut u, 10) else { return };
    prefix.ops.retain(|o| !matches!(o, Op::Reopen | Op::AgeSnapshot { .. }));
    let n = prefix.nclients;
    let Ok(k) = u.int_in_range(1..=16usize) else { return };
    let mut reqs = vec![];
    for _ in 0..k {
        if u.is_empty() {
            break;
        }
        match rawreq(&mut u, n) {
            Ok(r) => reqs.push(r),
            Err(_) => break,
        }
    }
    if reqs.is_empty() {
        return;
    }
    let id = match prop().as_str() {
        "C20" => "C20",
        _ => "C15",
    };
    let rc = RCase { backend, prefix, reqs };
    let mut st = Stats::default();
    st.frozen = true;
    if let Err(Fail::Violation(m)) = http::fuzz_check_raw(&rc, id == "C20", &mut st) {
        let path = write_replay(id, "raw", &rc, &m);
        println!("--- {id} [raw]: {m}");
        println!("VIOLATION property={id} replay={}", path.display());
        crate::driver::cleanup_temp_root();
        panic!("property {id} violated; replay at {}", path.display());
    }
}

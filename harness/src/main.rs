//! tcss-verif: property-based checks for taskchampion-sync-server (see /verif/DESIGN.md).


use tcss_verif::engine::Tier;
use tcss_verif::{driver, props};

fn usage() -> ! {
    eprintln!("usage: tcss-verif check <ID> [quick|thorough] | replay <file> | list");
    std::process::exit(64);
}

/// A logger that accepts every level, formats every record (so that whatever the server's log
/// statements evaluate is evaluated) and throws the text away.  Operators run the server with
/// RUST_LOG set; code guarded by `log_enabled!` must not change what the server does.
struct Sink;
impl log::Log for Sink {
    fn enabled(&self, _: &log::Metadata) -> bool {
        true
    }
    fn log(&self, record: &log::Record) {
        use std::fmt::Write;
        thread_local!(static BUF: std::cell::RefCell<String> = std::cell::RefCell::new(String::new()));
        BUF.with(|b| {
            let mut b = b.borrow_mut();
            b.clear();
            let _ = write!(b, "{}", record.args());
        });
    }
    fn flush(&self) {}
}
static SINK: Sink = Sink;

fn main() {
    // servers run in all sorts of time zones: three workers in four get one (POSIX TZ strings, no
    // zone files needed), set before any thread exists
    {
        let w: usize = std::env::var("TCSS_WORKER").ok().and_then(|v| v.split(':').nth(1).and_then(|w| w.parse().ok())).unwrap_or(0);
        if std::env::var("TCSS_KEEP_TZ").is_err() {
            match w % 4 {
                1 => std::env::set_var("TZ", "LINT-14"),
                2 => std::env::set_var("TZ", "AOE12"),
                3 => std::env::set_var("TZ", "IST-5:30"),
                _ => std::env::set_var("TZ", "UTC0"),
            }
        }
    }
    // every second worker process (and the parent) runs with logging enabled at every level
    let worker: Option<usize> = std::env::var("TCSS_WORKER").ok().and_then(|v| v.split(':').nth(1).and_then(|w| w.parse().ok()));
    if worker.map(|w| w % 2 == 1).unwrap_or(true) && std::env::var("TCSS_NO_LOGGER").is_err() {
        let _ = log::set_logger(&SINK);
        log::set_max_level(log::LevelFilter::Trace);
    }
    // handler panics are observed through the drivers; keep stderr quiet unless asked
    if std::env::var("VERIF_VERBOSE").is_err() {
        std::panic::set_hook(Box::new(|_| {}));
    }
    // SQLite keeps allocation statistics under one global mutex; with 16 workers opening a
    // connection per transaction that mutex dominates.  Statistics are not needed here.
    unsafe {
        libsqlite3_sys::sqlite3_config(libsqlite3_sys::SQLITE_CONFIG_MEMSTATUS, 0 as std::os::raw::c_int);
    }
    let args: Vec<String> = std::env::args().collect();
    if args.len() < 2 {
        usage();
    }
    let code = match args[1].as_str() {
        "check" => {
            let id = args.get(2).cloned().unwrap_or_else(|| usage());
            let tier = match args.get(3).map(|s| s.as_str()).or(std::env::var("VERIF_TIER").ok().as_deref()) {
                Some("thorough") => Tier::Thorough,
                _ => Tier::Quick,
            };
            let seed: u64 = std::env::var("VERIF_SEED").ok().and_then(|s| s.trim().parse::<i128>().ok()).map(|v| v as u64).unwrap_or(1);
            match props::run(&id, tier, seed) {
                Some(report) => report.finish(),
                None => {
                    eprintln!("unknown property {id}");
                    64
                }
            }
        }
        "replay" => {
            let f = args.get(2).cloned().unwrap_or_else(|| usage());
            props::replay(&f)
        }
        "mkfixtures" => {
            let out = args.get(2).cloned().unwrap_or_else(|| usage());
            let commit = args.get(3).cloned().unwrap_or_else(|| "unknown".into());
            let only = args.get(4).cloned();
            let start: usize = args.get(5).and_then(|s| s.parse().ok()).unwrap_or(0);
            match props::compat::mkfixtures(std::path::Path::new(&out), &commit, only.as_deref(), start) {
                Ok(()) => 0,
                Err(e) => {
                    eprintln!("mkfixtures: {e:#}");
                    1
                }
            }
        }
        "note-fuzz" => {
            // record what the libFuzzer campaign of the thorough tier did, in the evidence file
            let id = args.get(2).cloned().unwrap_or_else(|| usage());
            let path = tcss_verif::engine::verif_root().join("evidence").join(format!("{id}.json"));
            let mut ev: serde_json::Value = std::fs::read_to_string(&path).ok().and_then(|t| serde_json::from_str(&t).ok()).unwrap_or(serde_json::json!({}));
            let mut f = serde_json::Map::new();
            for kv in &args[3..] {
                if let Some((k, v)) = kv.split_once('=') {
                    f.insert(k.to_string(), v.parse::<u64>().map(serde_json::Value::from).unwrap_or(serde_json::Value::from(v)));
                }
            }
            if let Some(v) = f.get("violations").and_then(|v| v.as_u64()) {
                let old = ev["violations"].as_u64().unwrap_or(0);
                ev["violations"] = serde_json::Value::from(old + v);
            }
            ev["coverage"]["fuzz"] = serde_json::Value::Object(f);
            let _ = std::fs::write(&path, serde_json::to_string_pretty(&ev).unwrap());
            0
        }
        "busy-probe" => {
            // diagnostic: how many refused lock attempts make one lock-wait budget?
            use taskchampion_sync_server_core::Storage;
            let dir = tcss_verif::driver::TempDir::new("busyprobe");
            let rec = tcss_verif::vfs::track(dir.path());
            let st = taskchampion_sync_server_storage_sqlite::SqliteStorage::new(dir.path()).unwrap();
            let c = uuid::Uuid::from_u128(7);
            // like a real lock holder: a connection that stays open keeps the wal-index alive
            let holder = rusqlite::Connection::open(dir.path().join("taskchampion-sync-server.sqlite3")).unwrap();
            let _n: i64 = holder.query_row("SELECT count(*) FROM clients", [], |r| r.get(0)).unwrap();
            for round in 0..4 {
                rec.set_busy(1000);
                let t0 = std::time::Instant::now();
                let r = st.txn(c).map(|_| ());
                let hits = rec.clear_busy();
                println!("round {round}: {:?} after {hits} refused attempts, {:?}", r.map_err(|e| format!("{e:#}")), t0.elapsed());
            }
            0
        }
        "list" => {
            for p in props::ALL {
                println!("{p}");
            }
            0
        }
        _ => usage(),
    };
    driver::cleanup_temp_root();
    std::process::exit(code);
}

//! tcss-verif: property-based checks for taskchampion-sync-server (see /verif/DESIGN.md).


use tcss_verif::engine::Tier;
use tcss_verif::{driver, props};

fn usage() -> ! {
    eprintln!("usage: tcss-verif check <ID> [quick|thorough] | replay <file> | list");
    std::process::exit(64);
}

fn main() {
    // handler panics are observed through the drivers; keep stderr quiet unless asked
    if std::env::var("VERIF_VERBOSE").is_err() {
        std::panic::set_hook(Box::new(|_| {}));
    }
    // SQLite keeps allocation statistics under one global mutex; with 16 workers opening a
    // connection per transaction that mutex dominates.  Statistics are not needed here.
    unsafe {
        libsqlite3_sys::sqlite3_config(libsqlite3_sys::SQLITE_CONFIG_MEMSTATUS, 0 as std::os::raw::c_int);
    }
    let args: Vec<String> = std::env::args().collect();
    if args.len() < 2 {
        usage();
    }
    let code = match args[1].as_str() {
        "check" => {
            let id = args.get(2).cloned().unwrap_or_else(|| usage());
            let tier = match args.get(3).map(|s| s.as_str()).or(std::env::var("VERIF_TIER").ok().as_deref()) {
                Some("thorough") => Tier::Thorough,
                _ => Tier::Quick,
            };
            let seed: u64 = std::env::var("VERIF_SEED").ok().and_then(|s| s.trim().parse::<i128>().ok()).map(|v| v as u64).unwrap_or(1);
            match props::run(&id, tier, seed) {
                Some(report) => report.finish(),
                None => {
                    eprintln!("unknown property {id}");
                    64
                }
            }
        }
        "replay" => {
            let f = args.get(2).cloned().unwrap_or_else(|| usage());
            props::replay(&f)
        }
        "mkfixtures" => {
            let out = args.get(2).cloned().unwrap_or_else(|| usage());
            let commit = args.get(3).cloned().unwrap_or_else(|| "unknown".into());
            match props::compat::mkfixtures(std::path::Path::new(&out), &commit) {
                Ok(()) => 0,
                Err(e) => {
                    eprintln!("mkfixtures: {e:#}");
                    1
                }
            }
        }
        "list" => {
            for p in props::ALL {
                println!("{p}");
            }
            0
        }
        _ => usage(),
    };
    driver::cleanup_temp_root();
    std::process::exit(code);
}

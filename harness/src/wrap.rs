//! Storage wrappers that live in the harness and wrap the *real* backends (DESIGN.md 2.4):
//! `Counting` (what did a request touch) and `Faulty` (make a chosen storage call fail).

use std::sync::{Arc, Mutex};
use taskchampion_sync_server_core::{Client, Snapshot, Storage, StorageTxn, Version};
use uuid::Uuid;

#[derive(Clone, Copy, Debug, PartialEq, Eq, Hash, serde::Serialize, serde::Deserialize)]
pub enum Call {
    Begin,
    GetClient,
    NewClient,
    SetSnapshot,
    GetSnapshotData,
    GetVersionByParent,
    GetVersion,
    AddVersion,
    Commit,
    /// the transaction object was dropped
    End,
}

impl Call {
    pub fn is_write(&self) -> bool {
        matches!(self, Call::NewClient | Call::SetSnapshot | Call::AddVersion | Call::Commit)
    }
}

#[derive(Clone, Debug, PartialEq, Eq)]
pub struct Event {
    pub client: Uuid,
    pub call: Call,
    pub ok: bool,
}

/// When and how a storage call is made to fail.
#[derive(Clone, Copy, Debug, PartialEq, Eq, Hash, serde::Serialize, serde::Deserialize)]
pub struct Fault {
    /// index of the storage call (counted from the moment the plan is armed, Begin included,
    /// End excluded)
    pub at: u32,
    /// false: fail before the call takes effect; true: let it take effect, then report failure
    pub after_effect: bool,
}

#[derive(Default)]
pub struct Shared {
    pub log: Vec<Event>,
    pub faults: Vec<Fault>,
    pub counter: u32,
    pub injected: Vec<(u32, Call, bool)>,
    /// a competing AddVersion (parent, payload) to slip in: if the request under test begins
    /// another transaction *after* one of its storage calls was made to fail, this request of
    /// the same client is served first (through a server of its own on the inner storage)
    pub interpose: Option<(Uuid, Vec<u8>)>,
    /// what the interposed request was answered (Ok(Some(id)) accepted, Ok(None) conflict)
    pub interposed: Option<Result<Option<Uuid>, String>>,
}

/// Counts every storage call and, if armed, injects faults.
pub struct Instrumented {
    inner: Arc<dyn Storage>,
    pub shared: Arc<Mutex<Shared>>,
}

impl Instrumented {
    pub fn new(inner: Arc<dyn Storage>, shared: Arc<Mutex<Shared>>) -> Instrumented {
        Instrumented { inner, shared }
    }
}

pub fn take_log(shared: &Arc<Mutex<Shared>>) -> Vec<Event> {
    std::mem::take(&mut shared.lock().unwrap().log)
}

/// Arm a fault plan; the call counter restarts at zero.
pub fn arm(shared: &Arc<Mutex<Shared>>, faults: Vec<Fault>) {
    let mut s = shared.lock().unwrap();
    s.faults = faults;
    s.counter = 0;
    s.injected.clear();
    s.interposed = None;
}

pub fn disarm(shared: &Arc<Mutex<Shared>>) -> Vec<(u32, Call, bool)> {
    let mut s = shared.lock().unwrap();
    s.faults.clear();
    std::mem::take(&mut s.injected)
}

fn injected_error(call: Call, n: u32, after: bool) -> anyhow::Error {
    anyhow::anyhow!("injected storage failure at call #{n} ({call:?}, {})", if after { "after taking effect" } else { "before taking effect" })
}

enum Decision {
    Pass,
    FailBefore(u32),
    FailAfter(u32),
}

fn decide(shared: &Arc<Mutex<Shared>>, call: Call) -> Decision {
    let mut s = shared.lock().unwrap();
    let n = s.counter;
    s.counter += 1;
    if let Some(f) = s.faults.iter().find(|f| f.at == n).copied() {
        s.injected.push((n, call, f.after_effect));
        if f.after_effect {
            Decision::FailAfter(n)
        } else {
            Decision::FailBefore(n)
        }
    } else {
        Decision::Pass
    }
}

fn record(shared: &Arc<Mutex<Shared>>, client: Uuid, call: Call, ok: bool) {
    shared.lock().unwrap().log.push(Event { client, call, ok });
}

impl Storage for Instrumented {
    fn txn(&self, client_id: Uuid) -> anyhow::Result<Box<dyn StorageTxn + '_>> {
        match decide(&self.shared, Call::Begin) {
            Decision::FailBefore(n) => {
                record(&self.shared, client_id, Call::Begin, false);
                Err(injected_error(Call::Begin, n, false))
            }
            Decision::FailAfter(n) => {
                // the transaction was begun, then the caller is told it failed: the
                // transaction object never reaches the caller and is dropped here
                let t = self.inner.txn(client_id);
                drop(t);
                record(&self.shared, client_id, Call::Begin, false);
                Err(injected_error(Call::Begin, n, true))
            }
            Decision::Pass => {
                let slip = {
                    let mut s = self.shared.lock().unwrap();
                    if !s.injected.is_empty() && s.interposed.is_none() {
                        s.interpose.take()
                    } else {
                        None
                    }
                };
                if let Some((parent, data)) = slip {
                    use taskchampion_sync_server_core::{AddVersionResult, Server, ServerConfig};
                    let srv = Server::new(ServerConfig::default(), crate::driver::ArcStorage(self.inner.clone()));
                    let r = match srv.add_version(client_id, parent, data) {
                        Ok((AddVersionResult::Ok(id), _)) => Ok(Some(id)),
                        Ok((AddVersionResult::ExpectedParentVersion(_), _)) => Ok(None),
                        Err(e) => Err(format!("{e:#}")),
                    };
                    self.shared.lock().unwrap().interposed = Some(r);
                }
                let r = self.inner.txn(client_id);
                record(&self.shared, client_id, Call::Begin, r.is_ok());
                let inner = r?;
                Ok(Box::new(ITxn { inner: Some(inner), shared: self.shared.clone(), client: client_id }))
            }
        }
    }
}

struct ITxn<'a> {
    inner: Option<Box<dyn StorageTxn + 'a>>,
    shared: Arc<Mutex<Shared>>,
    client: Uuid,
}

impl ITxn<'_> {
    fn run<T>(&mut self, call: Call, f: impl FnOnce(&mut dyn StorageTxn) -> anyhow::Result<T>) -> anyhow::Result<T> {
        let inner = self.inner.as_mut().expect("transaction in use").as_mut();
        let r = match decide(&self.shared, call) {
            Decision::FailBefore(n) => Err(injected_error(call, n, false)),
            Decision::FailAfter(n) => {
                let r = f(inner);
                match r {
                    Ok(_) => Err(injected_error(call, n, true)),
                    Err(e) => Err(e),
                }
            }
            Decision::Pass => f(inner),
        };
        record(&self.shared, self.client, call, r.is_ok());
        r
    }
}

impl StorageTxn for ITxn<'_> {
    fn get_client(&mut self) -> anyhow::Result<Option<Client>> {
        self.run(Call::GetClient, |t| t.get_client())
    }
    fn new_client(&mut self, latest_version_id: Uuid) -> anyhow::Result<()> {
        self.run(Call::NewClient, |t| t.new_client(latest_version_id))
    }
    fn set_snapshot(&mut self, snapshot: Snapshot, data: Vec<u8>) -> anyhow::Result<()> {
        self.run(Call::SetSnapshot, |t| t.set_snapshot(snapshot, data))
    }
    fn get_snapshot_data(&mut self, version_id: Uuid) -> anyhow::Result<Option<Vec<u8>>> {
        self.run(Call::GetSnapshotData, |t| t.get_snapshot_data(version_id))
    }
    fn get_version_by_parent(&mut self, parent_version_id: Uuid) -> anyhow::Result<Option<Version>> {
        self.run(Call::GetVersionByParent, |t| t.get_version_by_parent(parent_version_id))
    }
    fn get_version(&mut self, version_id: Uuid) -> anyhow::Result<Option<Version>> {
        self.run(Call::GetVersion, |t| t.get_version(version_id))
    }
    fn add_version(&mut self, version_id: Uuid, parent_version_id: Uuid, history_segment: Vec<u8>) -> anyhow::Result<()> {
        self.run(Call::AddVersion, |t| t.add_version(version_id, parent_version_id, history_segment))
    }
    fn commit(&mut self) -> anyhow::Result<()> {
        self.run(Call::Commit, |t| t.commit())
    }
}

impl Drop for ITxn<'_> {
    fn drop(&mut self) {
        self.inner = None;
        record(&self.shared, self.client, Call::End, true);
    }
}

/// A factory that wraps whatever `base` produces.
pub fn instrumented_factory(base: crate::driver::StorageFactory, shared: Arc<Mutex<Shared>>) -> crate::driver::StorageFactory {
    Box::new(move || {
        let inner = base()?;
        Ok(crate::driver::Stores { served: Arc::new(Instrumented::new(inner.served, shared.clone())) as Arc<dyn Storage>, probe: inner.probe })
    })
}

//! Symbolic histories: the generated value shared by most checks (DESIGN.md 2.1).
//!
//! A `Case` is plain data.  Version ids are *references* resolved at execution time against what
//! the server actually answered, because the server picks version ids at random.

use proptest::prelude::*;
use serde::{Deserialize, Serialize};
use uuid::Uuid;

/// A payload described by (length, byte class, seed) and expanded deterministically.
#[derive(Clone, Debug, Serialize, Deserialize, PartialEq, Eq, Hash)]
pub struct BytesSpec {
    pub len: u32,
    pub class: u8,
    pub seed: u32,
}

pub const N_CLASSES: u8 = 13;

pub fn class_name(c: u8) -> &'static str {
    match c % N_CLASSES {
        0 => "zeros",
        1 => "ff",
        2 => "random",
        3 => "numeric-text",
        4 => "utf8",
        5 => "invalid-utf8",
        6 => "nul-embedded",
        7 => "uuid-text",
        8 => "gzip-member",
        9 => "zlib-stream",
        10 => "common-prefix",
        11 => "framing-tail",
        _ => "sibling",
    }
}

fn xorshift(state: &mut u64) -> u64 {
    let mut x = *state;
    x ^= x << 13;
    x ^= x >> 7;
    x ^= x << 17;
    *state = x;
    x
}

impl BytesSpec {
    pub fn new(len: u32, class: u8, seed: u32) -> Self {
        BytesSpec { len, class, seed }
    }

    /// Expand to bytes.  Always exactly `len` bytes.  For every class the seed influences the
    /// content wherever the class leaves room, so that two uploads differ observably.
    pub fn expand(&self) -> Vec<u8> {
        let len = self.len as usize;
        let mut out = Vec::with_capacity(len);
        let mut st = (self.seed as u64).wrapping_mul(0x9E37_79B9_7F4A_7C15) ^ 0xD1B5_4A32_D192_ED03;
        if st == 0 {
            st = 1;
        }
        match self.class % N_CLASSES {
            0 => out.resize(len, 0u8),
            1 => out.resize(len, 0xFFu8),
            2 => {
                while out.len() < len {
                    let v = xorshift(&mut st).to_le_bytes();
                    let take = (len - out.len()).min(8);
                    out.extend_from_slice(&v[..take]);
                }
            }
            3 => {
                // text that looks numeric: integers, floats, exponents, hex
                let forms: [&[u8]; 8] = [
                    b"1e5", b"12345", b"-3.50", b"0x10", b"007", b"1.0", b"9223372036854775808",
                    b"+4",
                ];
                let f = forms[(self.seed as usize) % forms.len()];
                if len <= f.len() {
                    out.extend_from_slice(&f[..len]);
                    // make sure a truncated form is still numeric-looking
                    for b in out.iter_mut() {
                        if !b.is_ascii_digit() {
                            *b = b'1';
                        }
                    }
                } else {
                    // pad with digits in front of the form so the whole thing stays a number
                    while out.len() < len - f.len() {
                        out.push(b'0' + (xorshift(&mut st) % 10) as u8);
                    }
                    if out.first() == Some(&b'0') && out.len() > 1 {
                        out[0] = b'1';
                    }
                    // digits followed by e.g. "1e5" is still numeric text
                    let tail: &[u8] = if f[0] == b'-' || f[0] == b'+' || f.starts_with(b"0x") {
                        b"12345678"
                    } else {
                        f
                    };
                    let tail = &tail[..tail.len().min(len - out.len())];
                    out.extend_from_slice(tail);
                    while out.len() < len {
                        out.push(b'7');
                    }
                }
            }
            4 => {
                let alphabet = ["a", "Z", "é", "ß", "日", "本", "😀", " ", "\n", "'", "\"", "\\"];
                while out.len() < len {
                    let s = alphabet[(xorshift(&mut st) % alphabet.len() as u64) as usize];
                    if out.len() + s.len() <= len {
                        out.extend_from_slice(s.as_bytes());
                    } else {
                        out.push(b'x');
                    }
                }
            }
            5 => {
                let bad: [&[u8]; 5] =
                    [&[0xC3, 0x28], &[0xFF, 0xFE], &[0xE2, 0x82], &[0xF0, 0x28, 0x8C, 0xBC], &[0x80]];
                while out.len() < len {
                    let s = bad[(xorshift(&mut st) % bad.len() as u64) as usize];
                    let take = (len - out.len()).min(s.len());
                    out.extend_from_slice(&s[..take]);
                }
                if len > 0 {
                    // a lone continuation byte is invalid wherever it stands
                    out[len - 1] = 0x80;
                    if len > 1 {
                        out[0] = 0xFF;
                    }
                }
            }
            6 => {
                while out.len() < len {
                    let r = xorshift(&mut st);
                    out.push(if r % 3 == 0 { 0 } else { b'a' + (r % 26) as u8 });
                }
                if len > 1 {
                    out[len / 2] = 0;
                    out[0] = b'a' + (self.seed % 26) as u8;
                }
            }
            12 => {
                // a family of near-identical payloads: the bytes depend on the seed's upper bits
                // only; the low byte picks a small edit (none, two bytes a given distance apart
                // swapped, one bit flipped, a rotation) - same length, same byte multiset for the
                // swaps and rotations, so that a checksum, a length or a prefix cannot tell the
                // members apart
                let mut fam = ((self.seed >> 8) as u64).wrapping_mul(0x9E37_79B9_7F4A_7C15) ^ 0xA5A5_5A5A_1234_5678;
                while out.len() < len {
                    let v = xorshift(&mut fam).to_le_bytes();
                    let take = (len - out.len()).min(8);
                    out.extend_from_slice(&v[..take]);
                }
                let e = (self.seed & 0xFF) as usize;
                if len >= 2 {
                    match e {
                        0 => {}
                        1..=130 => {
                            let dist = e.min(len - 1);
                            let i = (len - 1 - dist) / 3;
                            if out[i] == out[i + dist] {
                                out[i] = out[i].wrapping_add(1);
                            }
                            out.swap(i, i + dist);
                        }
                        131..=194 => {
                            let bit = e - 131;
                            let i = (len / 2 + bit / 8).min(len - 1);
                            out[i] ^= 1 << (bit % 8);
                        }
                        _ => out.rotate_left((e - 194).min(len - 1)),
                    }
                }
            }
            11 => {
                // random bytes that end the way HTTP framing does (payloads are opaque: a body may
                // end in CR LF, in a blank line, in what looks like a last chunk or a boundary)
                while out.len() < len {
                    let v = xorshift(&mut st).to_le_bytes();
                    let take = (len - out.len()).min(8);
                    out.extend_from_slice(&v[..take]);
                }
                let tail = framing_tail(self.seed);
                if len >= tail.len() {
                    out[len - tail.len()..].copy_from_slice(tail);
                }
            }
            10 => {
                // the first 4 KiB are the same for every seed, the rest depends on it: two such
                // payloads of one length agree in length and beginning and differ further on
                while out.len() < len.min(4096) {
                    out.push(b'A' + (out.len() % 23) as u8);
                }
                while out.len() < len {
                    let v = xorshift(&mut st).to_le_bytes();
                    let take = (len - out.len()).min(8);
                    out.extend_from_slice(&v[..take]);
                }
            }
            8 | 9 => {
                // a complete, valid compressed stream (gzip member / zlib stream) followed by
                // filler: payloads are opaque, whatever well-known format they happen to look like
                use std::io::Write;
                let mut plain = Vec::new();
                let unit = format!("payload-{}-", self.seed);
                while plain.len() < len.max(8) {
                    plain.extend_from_slice(unit.as_bytes());
                }
                let packed: Vec<u8> = if self.class % N_CLASSES == 8 {
                    let mut e = flate2::write::GzEncoder::new(Vec::new(), flate2::Compression::default());
                    let _ = e.write_all(&plain);
                    e.finish().unwrap_or_default()
                } else {
                    let mut e = flate2::write::ZlibEncoder::new(Vec::new(), flate2::Compression::default());
                    let _ = e.write_all(&plain);
                    e.finish().unwrap_or_default()
                };
                if packed.len() <= len {
                    out.extend_from_slice(&packed);
                    while out.len() < len {
                        out.push((xorshift(&mut st) & 0xFF) as u8);
                    }
                } else {
                    // too short for a whole stream: at least its beginning
                    out.extend_from_slice(&packed[..len]);
                }
            }
            _ => {
                // looks like an id in text form
                let u = fresh_uuid(self.seed).to_string();
                let u = u.as_bytes();
                while out.len() < len {
                    let take = (len - out.len()).min(u.len());
                    out.extend_from_slice(&u[..take]);
                }
            }
        }
        debug_assert_eq!(out.len(), len);
        out
    }
}

/// A deterministic, non-nil, v4-looking id for a literal.
pub fn fresh_uuid(literal: u32) -> Uuid {
    // two literals stand for ids with a peculiar shape: all ones, and nil but for the last bit
    if literal == 6 {
        return Uuid::from_bytes([0xFF; 16]);
    }
    if literal == 7 {
        let mut b = [0u8; 16];
        b[15] = 1;
        return Uuid::from_bytes(b);
    }
    let mut st = (literal as u64).wrapping_mul(0xA076_1D64_78BD_642F) ^ 0xE703_7ED1_A0B4_28DB;
    if st == 0 {
        st = 1;
    }
    let a = xorshift(&mut st);
    let b = xorshift(&mut st);
    let mut bytes = [0u8; 16];
    bytes[..8].copy_from_slice(&a.to_le_bytes());
    bytes[8..].copy_from_slice(&b.to_le_bytes());
    bytes[0] = 0xF5; // mark harness-made ids
    bytes[6] = (bytes[6] & 0x0F) | 0x40;
    bytes[8] = (bytes[8] & 0x3F) | 0x80;
    Uuid::from_bytes(bytes)
}

/// The id of client number `idx` in a case with the given salt.
/// The ending of a payload of the "framing-tail" class.
pub fn framing_tail(seed: u32) -> &'static [u8] {
    const TAILS: [&[u8]; 8] = [b"\r\n", b"\r\n\r\n", b"0\r\n\r\n", b"\n", b"\r", b"\r\n0\r\n\r\n", b"--boundary--\r\n", b"\r\n--"];
    TAILS[(seed as usize / 7) % TAILS.len()]
}

pub fn client_uuid(salt: u32, idx: u8) -> Uuid {
    // a few salts give client ids with a peculiar shape (the fixture corpus uses salts 1900-1909,
    // which must keep their ids)
    if !(1900..1910).contains(&salt) {
        match salt % 16 {
            11 => {
                // leading zeros, differing in the last digit only
                let mut b = [0u8; 16];
                b[6] = 0x40;
                b[8] = 0x80;
                b[15] = idx + 1;
                return Uuid::from_bytes(b);
            }
            12 => {
                // all ones but the last digit
                let mut b = [0xFFu8; 16];
                b[15] = 0xF0 | (idx & 0x0F);
                b[14] = 0xFF - (idx >> 4);
                return Uuid::from_bytes(b);
            }
            14 if idx == 0 => {
                // the all-zero id is an id like any other
                return Uuid::nil();
            }
            13 => {
                // equal in everything but the first byte
                let mut b = [0xABu8; 16];
                b[0] = idx;
                b[6] = 0x4B;
                b[8] = 0x8B;
                return Uuid::from_bytes(b);
            }
            _ => {}
        }
    }
    let mut st = ((salt as u64) << 8 | idx as u64).wrapping_mul(0x2545_F491_4F6C_DD1D) ^ 0x1234_5678_9ABC_DEF1;
    if st == 0 {
        st = 1;
    }
    let a = xorshift(&mut st);
    let b = xorshift(&mut st);
    let mut bytes = [0u8; 16];
    bytes[..8].copy_from_slice(&a.to_le_bytes());
    bytes[8..].copy_from_slice(&b.to_le_bytes());
    bytes[0] = 0xC1;
    bytes[1] = idx;
    bytes[6] = (bytes[6] & 0x0F) | 0x40;
    bytes[8] = (bytes[8] & 0x3F) | 0x80;
    Uuid::from_bytes(bytes)
}

/// A reference to a version id, resolved at execution time.
/// The client index inside is absolute; "foreign" means it differs from the op's own client.
#[derive(Clone, Debug, Serialize, Deserialize, PartialEq, Eq, Hash)]
pub enum IdRef {
    Nil,
    /// latest acknowledged version of that client (nil if none)
    Latest(u8),
    /// `back` steps before the latest acknowledged version of that client (1 = its parent);
    /// running off the chain lands on the chain base
    Ancestor(u8, u8),
    /// the parent id submitted with the first acknowledged version (nil if none yet)
    Base(u8),
    /// the version of that client's accepted snapshot (nil if none)
    SnapVersion(u8),
    /// a deterministic id made by the harness
    Fresh(u32),
    /// a concrete id (never generated; used when a history is projected onto one client)
    Literal(Uuid),
    /// an id that differs from `Ancestor(client, back)` (the chain base when that runs off the
    /// chain) in a few bytes only: mode 0 the last byte, 1 the first byte, 2 the last six bytes,
    /// 3 the first six bytes - a near miss of an id the server knows
    Near(u8, u8, u8),
    /// an id made from client ids: mode 0 the id of client `.0` itself used as a version id,
    /// 1 that id xor the id of client `.1`, 2 its bitwise complement, 3 its bytes reversed
    OfClients(u8, u8, u8),
}

#[derive(Clone, Debug, Serialize, Deserialize, PartialEq, Eq, Hash)]
pub enum Op {
    AddVersion { c: u8, parent: IdRef, data: BytesSpec },
    GetChild { c: u8, parent: IdRef },
    AddSnapshot { c: u8, version: IdRef, data: BytesSpec },
    GetSnapshot { c: u8 },
    /// persistent backend only: drop the storage object (and everything built on it), open again
    Reopen,
    /// time travel: rewrite the stored snapshot's timestamp so that it is `days` days old
    AgeSnapshot { c: u8, days: u16 },
    /// put the (still unknown) client into the state the server itself leaves between the two
    /// transactions of a first AddVersion - a client record with no versions and no snapshot -
    /// through the public storage API; no effect on a client the server already knows
    NewClient { c: u8 },
}

impl Op {
    pub fn client(&self) -> Option<u8> {
        match self {
            Op::AddVersion { c, .. }
            | Op::GetChild { c, .. }
            | Op::AddSnapshot { c, .. }
            | Op::GetSnapshot { c }
            | Op::AgeSnapshot { c, .. }
            | Op::NewClient { c } => Some(*c),
            Op::Reopen => None,
        }
    }
    pub fn kind(&self) -> &'static str {
        match self {
            Op::AddVersion { .. } => "AddVersion",
            Op::GetChild { .. } => "GetChild",
            Op::AddSnapshot { .. } => "AddSnapshot",
            Op::GetSnapshot { .. } => "GetSnapshot",
            Op::Reopen => "Reopen",
            Op::AgeSnapshot { .. } => "AgeSnapshot",
            Op::NewClient { .. } => "NewClient",
        }
    }
}

/// Ages (in whole days) at which a snapshot's time falls on or next to a landmark of the calendar
/// rather than of the targets: before 1970, the epoch itself, the instants 10^8 s and 10^9 s
/// (where second/millisecond heuristics have their seams), and a century back.
pub const EPOCH_OFFSETS: [i64; 16] = [-36500, -2500, -400, -2, -1, 0, 1, 2, 1156, 1157, 1158, 1159, 3000, 11573, 11574, 11575];

pub fn today_days() -> i64 {
    chrono::Utc::now().timestamp().div_euclid(86400)
}

/// The age an `Op::AgeSnapshot { days }` stands for: below 60000 the number itself; from 60000 on
/// an age relative to the calendar - the snapshot is placed `days - 62500` days after 1970-01-01.
pub fn age_days(days: u16) -> i64 {
    if (59900..60000).contains(&days) {
        // a snapshot stamped in the future (the clock was stepped back, or the database came
        // from a host whose clock runs ahead): 59900 + d means d days ahead, minus part of a day
        -((days - 59899) as i64)
    } else if days < 60000 {
        days as i64
    } else {
        today_days() - (days as i64 - 62500)
    }
}

/// What `now - timestamp` comes to in whole days for an age passed to `Driver::age_snapshot`
/// (which puts the snapshot part of a day further back): the age itself, or for a future stamp
/// one day less far ahead (whole days truncate towards zero).
pub fn observed_age_days(age: i64) -> i64 {
    if age < 0 {
        age + 1
    } else {
        age
    }
}

#[derive(Clone, Debug, Serialize, Deserialize, PartialEq, Eq, Hash)]
pub struct Cfg {
    pub snapshot_days: i64,
    pub snapshot_versions: u32,
}

impl Default for Cfg {
    fn default() -> Self {
        Cfg { snapshot_days: 14, snapshot_versions: 100 }
    }
}

#[derive(Clone, Debug, Serialize, Deserialize, PartialEq, Eq, Hash)]
pub struct Case {
    pub cfg: Cfg,
    pub salt: u32,
    pub nclients: u8,
    pub ops: Vec<Op>,
}

// ---------------------------------------------------------------------------------------------
// Strategies

/// Generation parameters; each property tunes these and then measures what comes out.
#[derive(Clone, Debug)]
pub struct GenParams {
    pub max_clients: u8,
    pub max_ops: usize,
    pub min_ops: usize,
    /// maximum payload length for ordinary payloads
    pub max_len: u32,
    /// weight (0..100) of foreign client references among id arguments
    pub foreign_pct: u32,
    /// weight of AddVersion using Latest(own) as parent
    pub av_latest_pct: u32,
    /// relative op weights: add_version, get_child, add_snapshot, get_snapshot, reopen, age
    pub w: [u32; 6],
    /// small snapshot targets (so that urgency bands are reached by real histories)
    pub small_cfg: bool,
    /// probability (0..100) that the first parent of a client's chain is non-nil
    pub nonnil_base_pct: u32,
    /// per-mille of payloads that are large (0.2-1.5 MB): beyond the default limits of
    /// off-the-shelf body extractors and well into SQLite overflow chains
    pub big_permille: u32,
    /// probability (0..100) that a client starts as a registered-but-empty record (Op::NewClient)
    pub empty_client_pct: u32,
    /// per-mille of payloads that are empty: a zero-length history segment or snapshot is a valid
    /// argument of the library entry points (the HTTP handlers refuse an empty body, so histories
    /// driven over HTTP send one byte instead - see hist.rs)
    pub empty_permille: u32,
    /// probability (0..100) that an upload repeats, byte for byte, the payload of an earlier upload
    /// of the same kind (mostly the same client's most recent one)
    pub dup_payload_pct: u32,
}

impl Default for GenParams {
    fn default() -> Self {
        GenParams {
            max_clients: 3,
            max_ops: 40,
            min_ops: 1,
            max_len: 64,
            foreign_pct: 15,
            av_latest_pct: 70,
            w: [45, 15, 22, 8, 5, 5],
            small_cfg: true,
            nonnil_base_pct: 30,
            big_permille: 0,
            empty_client_pct: 8,
            empty_permille: 0,
            dup_payload_pct: 12,
        }
    }
}

pub fn bytes_spec_p(p: &GenParams) -> BoxedStrategy<BytesSpec> {
    if p.empty_permille == 0 {
        return bytes_spec_big(p.max_len, p.big_permille);
    }
    prop_oneof![
        1000 - p.empty_permille.min(999) => bytes_spec_big(p.max_len, p.big_permille),
        p.empty_permille.min(999) => (0u8..N_CLASSES, 0u32..0xFFFF).prop_map(|(class, seed)| BytesSpec { len: 0, class, seed }),
    ]
    .boxed()
}

pub fn bytes_spec_big(max_len: u32, big_permille: u32) -> BoxedStrategy<BytesSpec> {
    if big_permille == 0 {
        return bytes_spec(max_len).boxed();
    }
    prop_oneof![
        1000 - big_permille.min(999) => bytes_spec(max_len),
        big_permille.min(999) => (200_000u32..1_500_000, 0u8..N_CLASSES, 0u32..0xFFFF).prop_map(|(len, class, seed)| BytesSpec { len, class, seed }),
    ]
    .boxed()
}

pub fn bytes_spec(max_len: u32) -> impl Strategy<Value = BytesSpec> {
    let max_len = max_len.max(1);
    (
        prop_oneof![
            6 => 1u32..=max_len.min(8),
            6 => 1u32..=max_len,
            1 => Just(1u32),
        ],
        0u8..N_CLASSES,
        any::<u32>(),
    )
        .prop_map(|(len, class, seed)| BytesSpec { len, class, seed: seed & 0xFFFF })
}

fn client_idx(n: u8) -> impl Strategy<Value = u8> {
    0u8..n
}

/// id argument for an op of client `own`
fn idref(own: u8, n: u8, p: &GenParams, latest_w: u32) -> BoxedStrategy<IdRef> {
    let foreign = if n > 1 { p.foreign_pct } else { 0 };
    let other = move |k: u8| -> u8 {
        // a client different from own
        let mut c = k % n;
        if c == own {
            c = (c + 1) % n;
        }
        c
    };
    let rest = 100u32.saturating_sub(latest_w).max(10);
    prop_oneof![
        latest_w => Just(IdRef::Latest(own)),
        rest * 14 / 100 + 1 => Just(IdRef::Nil),
        rest * 26 / 100 + 1 => (1u8..9).prop_map(move |b| IdRef::Ancestor(own, b)),
        rest * 12 / 100 + 1 => Just(IdRef::Base(own)),
        rest * 10 / 100 + 1 => Just(IdRef::SnapVersion(own)),
        rest * 12 / 100 + 1 => (0u32..8).prop_map(IdRef::Fresh),
        rest * 6 / 100 + 1 => (0u8..4, 0u8..4).prop_map(move |(back, mode)| IdRef::Near(own, back, mode)),
        rest * 4 / 100 + 1 => (0u8..4, 0u8..4, 0u8..4).prop_map(move |(a, b, mode)| IdRef::OfClients(a % n, b % n, mode)),
        rest * foreign / 100 + if foreign > 0 {1} else {0} => (any::<u8>(), 0u8..4, 0u8..6).prop_map(move |(k, which, b)| {
            let o = other(k);
            match which {
                0 => IdRef::Latest(o),
                1 => IdRef::Ancestor(o, 1 + b),
                2 => IdRef::Base(o),
                _ => IdRef::SnapVersion(o),
            }
        }),
    ]
    .boxed()
}

pub fn op(n: u8, p: &GenParams) -> BoxedStrategy<Op> {
    let p = p.clone();
    let p2 = p.clone();
    let p3 = p.clone();
    let p4 = p.clone();
    prop_oneof![
        p.w[0] => client_idx(n).prop_flat_map(move |c| {
            (Just(c), idref(c, n, &p2, p2.av_latest_pct), bytes_spec_p(&p2))
        }).prop_map(|(c, parent, data)| Op::AddVersion { c, parent, data }),
        p.w[1] => client_idx(n).prop_flat_map(move |c| {
            (Just(c), idref(c, n, &p3, 25))
        }).prop_map(|(c, parent)| Op::GetChild { c, parent }),
        p.w[2] => client_idx(n).prop_flat_map(move |c| {
            (Just(c), idref(c, n, &p4, 30), bytes_spec_p(&p4))
        }).prop_map(|(c, version, data)| Op::AddSnapshot { c, version, data }),
        p.w[3] => client_idx(n).prop_map(|c| Op::GetSnapshot { c }),
        p.w[4] => Just(Op::Reopen),
        p.w[5] => (client_idx(n), prop_oneof![
            4 => 0u16..8,
            4 => 0u16..40,
            1 => prop::sample::select(EPOCH_OFFSETS.to_vec()).prop_map(|o| (62500 + o.clamp(-2500, 3035)) as u16),
            1 => (60000u16..=65535),
            1 => (59900u16..59904),
        ]).prop_map(|(c, days)| Op::AgeSnapshot { c, days }),
    ]
    .boxed()
}

pub fn cfg(small: bool) -> BoxedStrategy<Cfg> {
    if small {
        (prop_oneof![1i64..6, 0i64..20], prop_oneof![1u32..7, 0u32..12])
            .prop_map(|(d, v)| Cfg { snapshot_days: d, snapshot_versions: v })
            .boxed()
    } else {
        Just(Cfg::default()).boxed()
    }
}

pub fn case(p: &GenParams) -> BoxedStrategy<Case> {
    let p = p.clone();
    (1u8..=p.max_clients, cfg(p.small_cfg), any::<u32>())
        .prop_flat_map(move |(n, cfg, salt)| {
            let p = p.clone();
            // the first op of a client decides the chain base: make non-nil bases common
            let first = {
                let pct = p.nonnil_base_pct;
                let empty = p.empty_client_pct;
                proptest::collection::vec(
                    (0u32..100, 0u32..4, bytes_spec_p(&p), 0u32..100),
                    n as usize,
                )
                .prop_map(move |v| {
                    let mut out = vec![];
                    for (i, (r, lit, data, e)) in v.into_iter().enumerate() {
                        if e < empty {
                            out.push(Op::NewClient { c: i as u8 });
                        }
                        if r < pct {
                            out.push(Op::AddVersion { c: i as u8, parent: IdRef::Fresh(100 + i as u32 * 4 + lit), data });
                        }
                    }
                    out
                })
            };
            let dup = p.dup_payload_pct;
            (
                Just(n),
                Just(cfg),
                Just(salt & 0xFFFF),
                first,
                proptest::collection::vec(op(n, &p), p.min_ops..=p.max_ops),
                proptest::collection::vec((0u32..100, 0u8..3), p.max_ops + 2 * n as usize + 1),
                Just(dup),
            )
        })
        .prop_map(|(n, cfg, salt, mut first, ops, dice, dup)| {
            first.extend(ops);
            // repeated payloads: the same bytes uploaded again (as the next version, as the next
            // snapshot, by another client)
            let mut last_v: Vec<Option<BytesSpec>> = vec![None; n as usize];
            let mut last_s: Vec<Option<BytesSpec>> = vec![None; n as usize];
            for (i, o) in first.iter_mut().enumerate() {
                let (roll, who) = dice.get(i).copied().unwrap_or((99, 0));
                match o {
                    Op::AddVersion { c, data, .. } => {
                        let ci = *c as usize % n as usize;
                        let src = if who == 2 { (ci + 1) % n as usize } else { ci };
                        if roll < dup {
                            if let Some(d) = &last_v[src] {
                                *data = d.clone();
                            }
                        }
                        last_v[ci] = Some(data.clone());
                    }
                    Op::AddSnapshot { c, data, .. } => {
                        let ci = *c as usize % n as usize;
                        let src = if who == 2 { (ci + 1) % n as usize } else { ci };
                        if roll < dup {
                            if let Some(d) = &last_s[src] {
                                *data = d.clone();
                            }
                        }
                        last_s[ci] = Some(data.clone());
                    }
                    _ => {}
                }
            }
            Case { cfg, salt, nclients: n, ops: first }
        })
        .boxed()
}

//! Known findings (DESIGN.md 2.6): /verif/known_findings.txt, committed, read-only at run time.
//! `open:` entries are reported as KNOWN-FINDING and excluded from the search by construction
//! (keyed on an exact signature); `fixed:` entries suppress nothing.

use std::sync::OnceLock;

#[derive(Clone, Debug)]
pub struct Finding {
    pub property: String,
    pub signature: String,
    pub text: String,
}

static OPEN: OnceLock<Vec<Finding>> = OnceLock::new();

fn load() -> Vec<Finding> {
    let path = crate::engine::verif_root().join("known_findings.txt");
    let Ok(text) = std::fs::read_to_string(path) else { return vec![] };
    let mut out = vec![];
    for line in text.lines() {
        let Some(rest) = line.strip_prefix("open:") else { continue };
        let rest = rest.trim();
        let mut property = String::new();
        let mut signature = String::new();
        let mut words = vec![];
        for w in rest.split_whitespace() {
            if let Some(p) = w.strip_prefix("property=") {
                property = p.to_string();
            } else if let Some(s) = w.strip_prefix("signature=") {
                signature = s.to_string();
            } else {
                words.push(w);
            }
        }
        if !property.is_empty() && !signature.is_empty() {
            out.push(Finding { property, signature, text: words.join(" ") });
        }
    }
    out
}

pub fn open_findings() -> &'static [Finding] {
    OPEN.get_or_init(load)
}

pub fn is_open(signature: &str) -> bool {
    open_findings().iter().any(|f| f.signature == signature)
}

pub fn open_for(property: &str) -> Vec<Finding> {
    open_findings().iter().filter(|f| f.property == property).cloned().collect()
}

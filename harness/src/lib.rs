//! tcss-verif library: everything the checks are made of (see /verif/DESIGN.md).

pub mod case;
pub mod clock;
pub mod driver;
pub mod engine;
pub mod fuzz;
pub mod hist;
pub mod known;
pub mod model;
pub mod props;
pub mod sched;
pub mod sock;
pub mod vfs;
pub mod wrap;

//! The exploration engine: parallel proptest runners with fixed seeds, shrinking, replay files,
//! label statistics and evidence (DESIGN.md 2.6).

use proptest::strategy::{Strategy, ValueTree};
use proptest::test_runner::{Config, RngSeed, TestCaseError, TestError, TestRunner};
use serde::de::DeserializeOwned;
use serde::Serialize;
use serde_json::{json, Value};
use std::cell::RefCell;
use std::collections::{BTreeMap, HashSet};
use std::path::PathBuf;
use std::sync::atomic::{AtomicUsize, Ordering};
use std::sync::Mutex;
use std::time::Instant;

#[derive(Clone, Copy, Debug, PartialEq, Eq)]
pub enum Tier {
    Quick,
    Thorough,
}

impl Tier {
    pub fn name(&self) -> &'static str {
        match self {
            Tier::Quick => "quick",
            Tier::Thorough => "thorough",
        }
    }
    /// pick by tier
    pub fn pick<T>(&self, q: T, t: T) -> T {
        match self {
            Tier::Quick => q,
            Tier::Thorough => t,
        }
    }
}

pub fn verif_root() -> PathBuf {
    if let Ok(p) = std::env::var("VERIF_ROOT") {
        return PathBuf::from(p);
    }
    // the binary lives in <root>/harness/target/debug/
    let exe = std::env::current_exe().unwrap_or_default();
    for a in exe.ancestors() {
        if a.join("properties.jsonl").is_file() {
            return a.to_path_buf();
        }
    }
    PathBuf::from("/verif")
}

pub fn threads() -> usize {
    std::env::var("VERIF_THREADS")
        .ok()
        .and_then(|s| s.parse().ok())
        .unwrap_or_else(|| std::thread::available_parallelism().map(|n| n.get()).unwrap_or(4).min(16))
}

/// Statistics collected while exploring.  Counting stops at the first failure of a worker (the
/// closure is re-run by proptest while shrinking).
#[derive(Default, Clone, Debug)]
pub struct Stats {
    pub evals: u64,
    /// oracle applications (a history applies its oracle many times)
    pub checks: u64,
    pub labels: BTreeMap<String, u64>,
    pub nontrivial: HashSet<u64>,
    pub samples: Vec<Value>,
    pub frozen: bool,
    pub exhaustive_parts: Vec<String>,
    pub extra: BTreeMap<String, Value>,
}

impl Stats {
    pub fn label(&mut self, l: &str) {
        if !self.frozen {
            *self.labels.entry(l.to_string()).or_insert(0) += 1;
        }
    }
    /// count one application of the property's oracle
    pub fn check(&mut self) {
        if !self.frozen {
            self.checks += 1;
        }
    }
    pub fn label_n(&mut self, l: &str, n: u64) {
        if !self.frozen && n > 0 {
            *self.labels.entry(l.to_string()).or_insert(0) += n;
        }
    }
    /// Record one distinct non-trivial case, identified by a hash of its canonical shape.
    pub fn nontrivial<H: std::hash::Hash>(&mut self, key: &H) {
        if !self.frozen {
            use std::hash::Hasher;
            let mut h = std::collections::hash_map::DefaultHasher::new();
            key.hash(&mut h);
            self.nontrivial.insert(h.finish());
        }
    }
    pub fn sample(&mut self, v: impl FnOnce() -> Value) {
        if !self.frozen && self.samples.len() < 3 {
            self.samples.push(v());
        }
    }
    pub fn merge(&mut self, o: Stats) {
        self.evals += o.evals;
        self.checks += o.checks;
        for (k, v) in o.labels {
            *self.labels.entry(k).or_insert(0) += v;
        }
        self.nontrivial.extend(o.nontrivial);
        for s in o.samples {
            if self.samples.len() < 6 {
                self.samples.push(s);
            }
        }
        self.exhaustive_parts.extend(o.exhaustive_parts);
        for (k, v) in o.extra {
            self.extra.insert(k, v);
        }
    }
}

#[derive(Debug, Clone)]
pub struct Violation {
    pub property: String,
    pub kind: String,
    pub message: String,
    pub replay: PathBuf,
}

/// What a whole check run produces.
pub struct Report {
    pub property: String,
    pub tier: Tier,
    pub seed: u64,
    pub level: &'static str,
    pub rule: String,
    pub stats: Stats,
    pub subruns: Vec<Value>,
    pub violations: Vec<Violation>,
    pub known: Vec<String>,
    pub inconclusive: Vec<String>,
    pub assumptions: Vec<String>,
    pub start: Instant,
}

impl Report {
    pub fn new(property: &str, tier: Tier, seed: u64, level: &'static str, rule: &str) -> Report {
        Report {
            property: property.to_string(),
            tier,
            seed,
            level,
            rule: rule.to_string(),
            stats: Stats::default(),
            subruns: vec![],
            violations: vec![],
            known: vec![],
            inconclusive: vec![],
            assumptions: vec![],
            start: Instant::now(),
        }
    }

    pub fn assume(&mut self, s: &str) {
        self.assumptions.push(s.to_string());
    }

    /// A violation was found - or a case hung inside the code under test (every further sub-run
    /// would hang there too, for minutes each): either way no further sub-run is started.
    pub fn failed(&self) -> bool {
        !self.violations.is_empty() || self.inconclusive.iter().any(|m| m.contains("stuck") || m.contains("did not finish within"))
    }

    pub fn absorb(&mut self, name: &str, r: SubRun) {
        let mut top: Vec<(&String, &u64)> = r.stats.labels.iter().collect();
        top.sort();
        self.subruns.push(json!({
            "name": name,
            "evaluations": r.stats.evals.max(r.stats.checks),
            "generated_cases": r.stats.evals,
            "oracle_applications": r.stats.checks,
            "distinct_nontrivial": r.stats.nontrivial.len(),
            "exhaustive": r.exhaustive,
            "wall_s": r.wall_s,
            "labels": r.stats.labels,
        }));
        if r.exhaustive {
            self.stats.exhaustive_parts.push(name.to_string());
        }
        self.stats.merge(r.stats);
        self.violations.extend(r.violations);
        self.inconclusive.extend(r.inconclusive);
    }

    pub fn write_evidence(&self) -> std::io::Result<()> {
        let dir = verif_root().join("evidence");
        std::fs::create_dir_all(&dir)?;
        let mut coverage = json!({
            "evaluations": self.stats.evals.max(self.stats.checks),
            "generated_cases": self.stats.evals,
            "oracle_applications": self.stats.checks,
            "distinct_nontrivial": self.stats.nontrivial.len(),
            "rule": self.rule,
            "samples": self.stats.samples,
            "labels": self.stats.labels,
            "subruns": self.subruns,
            "exhaustive": false,
            "exhaustive_subruns": self.stats.exhaustive_parts,
            "known_findings_reported": crate::known::open_for(&self.property).iter().map(|f| json!({"signature": f.signature, "what": f.text, "excluded_in_this_run": self.stats.labels.get(&format!("known-finding-hit:{}", f.signature)).copied().unwrap_or(0)})).collect::<Vec<_>>(),
            "inconclusive": self.inconclusive,
            "violations": self.violations.iter().map(|v| json!({"kind": v.kind, "message": v.message, "replay": v.replay})).collect::<Vec<_>>(),
        });
        for (k, v) in &self.stats.extra {
            coverage[k] = v.clone();
        }
        let ev = json!({
            "property_id": self.property,
            "tier": self.tier.name(),
            "seed": self.seed,
            "level": self.level,
            "coverage": coverage,
            "assumptions": self.assumptions,
            "wall_s": self.start.elapsed().as_secs_f64(),
            "violations": self.violations.len(),
        });
        let path = dir.join(format!("{}.json", self.property));
        let tmp = dir.join(format!(".{}.json.tmp{}", self.property, std::process::id()));
        std::fs::write(&tmp, serde_json::to_string_pretty(&ev).unwrap())?;
        std::fs::rename(tmp, path)
    }

    /// Print the result lines and return the process exit code.
    pub fn finish(self) -> i32 {
        if let Err(e) = self.write_evidence() {
            eprintln!("cannot write evidence: {e}");
        }
        for k in &self.known {
            println!("KNOWN-FINDING: property={} {}", self.property, k);
        }
        for f in crate::known::open_for(&self.property) {
            let hits = self.stats.labels.get(&format!("known-finding-hit:{}", f.signature)).copied().unwrap_or(0);
            println!("KNOWN-FINDING: property={} {} [signature {}; met and excluded {} times in this run]", self.property, f.text, f.signature, hits);
        }
        for v in &self.violations {
            println!("--- {} [{}]: {}", v.property, v.kind, v.message);
            println!("VIOLATION property={} replay={}", v.property, v.replay.display());
        }
        println!(
            "{} {} seed={} cases={} evaluations={} distinct_nontrivial={} violations={} wall={:.1}s",
            self.property,
            self.tier.name(),
            self.seed,
            self.stats.evals,
            self.stats.evals.max(self.stats.checks),
            self.stats.nontrivial.len(),
            self.violations.len(),
            self.start.elapsed().as_secs_f64()
        );
        if !self.violations.is_empty() {
            return 1;
        }
        if !self.inconclusive.is_empty() {
            for i in &self.inconclusive {
                println!("INCONCLUSIVE property={} {}", self.property, i);
            }
            return 2;
        }
        0
    }
}

pub struct SubRun {
    pub stats: Stats,
    pub violations: Vec<Violation>,
    pub inconclusive: Vec<String>,
    pub exhaustive: bool,
    pub wall_s: f64,
}

pub fn mix(seed: u64, kind: &str, worker: u64) -> u64 {
    let mut h: u64 = 0xcbf29ce484222325 ^ seed.wrapping_mul(0x9E3779B97F4A7C15);
    for b in kind.bytes() {
        h ^= b as u64;
        h = h.wrapping_mul(0x100000001b3);
    }
    h ^= worker.wrapping_mul(0xD6E8FEB86659FD93);
    h = h.wrapping_mul(0x100000001b3);
    h ^ (h >> 29)
}

pub fn write_replay<C: Serialize>(property: &str, kind: &str, case: &C, message: &str) -> PathBuf {
    let body = json!({ "property": property, "kind": kind, "message": message, "case": case });
    let text = serde_json::to_string_pretty(&body).unwrap();
    let h = crate::driver::hash_bytes(serde_json::to_string(&json!({"k": kind, "c": case})).unwrap().as_bytes());
    let dir = verif_root().join("replays").join(property);
    let _ = std::fs::create_dir_all(&dir);
    let path = dir.join(format!("{kind}-{h:016x}.json"));
    let _ = std::fs::write(&path, text);
    path
}

/// A check result for one case: Err(message) is a violation; `Inconclusive` is not.
pub enum Fail {
    Violation(String),
    Inconclusive(String),
}
pub type CheckResult = Result<(), Fail>;

impl From<String> for Fail {
    fn from(s: String) -> Self {
        Fail::Violation(s)
    }
}

pub fn viol<T>(s: impl Into<String>) -> Result<T, Fail> {
    Err(Fail::Violation(s.into()))
}

// ---------------------------------------------------------------------------------------------
// Parallelism is by *process*, not by thread: SQLite serialises connection open/close and WAL
// shared-memory mapping under one process-wide mutex (and the kernel serialises mmap per process),
// so 16 threads opening a connection per transaction run slower than one.  A check process
// therefore re-executes itself once per worker; parent and children walk the same control flow,
// and sub-run number k of a child only does work if k is the child's target.

static SUBRUN_SEQ: std::sync::atomic::AtomicUsize = std::sync::atomic::AtomicUsize::new(0);

#[derive(serde::Serialize, serde::Deserialize, Default)]
struct WireResult {
    evals: u64,
    #[serde(default)]
    checks: u64,
    labels: BTreeMap<String, u64>,
    nontrivial: Vec<u64>,
    samples: Vec<Value>,
    extra: BTreeMap<String, Value>,
    violation: Option<(String, String, String, PathBuf)>,
    inconclusive: Vec<String>,
}

/// (target sub-run, worker index, number of workers) when this process is a worker.
fn worker_env() -> Option<(usize, usize, usize)> {
    let v = std::env::var("TCSS_WORKER").ok()?;
    let mut it = v.split(':').map(|x| x.parse::<usize>().ok());
    Some((it.next()??, it.next()??, it.next()??))
}

fn stop_requested() -> bool {
    match std::env::var_os("TCSS_STOPFILE") {
        Some(p) => std::path::Path::new(&p).exists(),
        None => false,
    }
}

fn request_stop() {
    if let Some(p) = std::env::var_os("TCSS_STOPFILE") {
        let _ = std::fs::write(p, b"stop");
    }
}

fn emit_and_exit(stats: Stats, violation: Option<Violation>, inconclusive: Vec<String>) -> ! {
    let w = WireResult {
        evals: stats.evals,
        checks: stats.checks,
        labels: stats.labels,
        nontrivial: stats.nontrivial.into_iter().collect(),
        samples: stats.samples,
        extra: stats.extra,
        violation: violation.map(|v| (v.property, v.kind, v.message, v.replay)),
        inconclusive,
    };
    println!("@@RESULT@@ {}", serde_json::to_string(&w).unwrap());
    crate::driver::cleanup_temp_root();
    std::process::exit(0);
}

fn empty_subrun() -> SubRun {
    SubRun { stats: Stats::default(), violations: vec![], inconclusive: vec![], exhaustive: false, wall_s: 0.0 }
}

/// Run `n` copies of this very command as workers for sub-run `seq` and merge what they report.
fn fan_out(seq: usize, n: usize) -> SubRun {
    let start = Instant::now();
    let exe = std::env::current_exe().expect("current exe");
    let args: Vec<String> = std::env::args().skip(1).collect();
    let stopfile = std::env::temp_dir().join(format!("tcss-verif-stop-{}-{}", std::process::id(), seq));
    let _ = std::fs::remove_file(&stopfile);
    let mut children = vec![];
    for w in 0..n {
        let c = std::process::Command::new(&exe)
            .args(&args)
            .env("TCSS_WORKER", format!("{seq}:{w}:{n}"))
            .env("TCSS_STOPFILE", &stopfile)
            .stdin(std::process::Stdio::null())
            .stdout(std::process::Stdio::piped())
            .stderr(std::process::Stdio::inherit())
            .spawn()
            .expect("spawn worker");
        children.push(c);
    }
    let mut out = empty_subrun();
    for (w, c) in children.into_iter().enumerate() {
        let o = c.wait_with_output().expect("wait for worker");
        let text = String::from_utf8_lossy(&o.stdout);
        let line = text.lines().find_map(|l| l.strip_prefix("@@RESULT@@ "));
        match line.and_then(|l| serde_json::from_str::<WireResult>(l).ok()) {
            Some(r) => {
                let st = Stats {
                    evals: r.evals,
                    checks: r.checks,
                    labels: r.labels,
                    nontrivial: r.nontrivial.into_iter().collect(),
                    samples: r.samples,
                    extra: r.extra,
                    ..Stats::default()
                };
                out.stats.merge(st);
                if let Some((property, kind, message, replay)) = r.violation {
                    out.violations.push(Violation { property, kind, message, replay });
                }
                out.inconclusive.extend(r.inconclusive);
            }
            None => out.inconclusive.push(format!("worker {w} of sub-run {seq} ended without a result (status {:?})", o.status.code())),
        }
    }
    let _ = std::fs::remove_file(&stopfile);
    if out.violations.len() > 1 {
        // one root cause is usually found by several workers: keep the smallest replay
        out.violations.sort_by_key(|v| std::fs::metadata(&v.replay).map(|m| m.len()).unwrap_or(u64::MAX));
        out.violations.truncate(1);
    }
    out.wall_s = start.elapsed().as_secs_f64();
    out
}

// ---------------------------------------------------------------------------------------------
// Deadlines.  A case that gets stuck inside the code under test (a lock that is never released,
// a wait that is never signalled) must not hang the check.  `deadline()` arms a limit for the
// lifetime of the returned guard; a watchdog thread ends the process when a limit passes:
//  * the general per-case limit reports INCONCLUSIVE (exit 2) - a time budget is no oracle;
//  * a limit armed by an oracle that is *about* being served (C05: "later requests are served
//    normally") reports a violation, with a bound far above anything a served request needs
//    (the bound is stated in the message).

struct Armed {
    id: u64,
    due: Instant,
    property: String,
    kind: String,
    case: serde_json::Value,
    message: String,
    violation: bool,
}

static DEADLINES: Mutex<Vec<Armed>> = Mutex::new(Vec::new());
static DEADLINE_SEQ: AtomicUsize = AtomicUsize::new(1);
static WATCHDOG: std::sync::Once = std::sync::Once::new();

pub struct Deadline {
    id: u64,
}

impl Drop for Deadline {
    fn drop(&mut self) {
        if let Ok(mut d) = DEADLINES.lock() {
            d.retain(|a| a.id != self.id);
        }
    }
}

pub fn deadline<C: Serialize>(secs: u64, property: &str, kind: &str, case: &C, message: &str, violation: bool) -> Deadline {
    WATCHDOG.call_once(|| {
        std::thread::spawn(|| loop {
            std::thread::sleep(std::time::Duration::from_millis(500));
            let fired = {
                let mut d = match DEADLINES.lock() {
                    Ok(d) => d,
                    Err(_) => continue,
                };
                let now = Instant::now();
                match d.iter().position(|a| a.due <= now) {
                    Some(i) => Some(d.remove(i)),
                    None => None,
                }
            };
            if let Some(a) = fired {
                fire(a);
            }
        });
    });
    let id = DEADLINE_SEQ.fetch_add(1, Ordering::SeqCst) as u64;
    let a = Armed { id, due: Instant::now() + std::time::Duration::from_secs(secs), property: property.to_string(), kind: kind.to_string(), case: serde_json::to_value(case).unwrap_or(serde_json::Value::Null), message: message.to_string(), violation };
    DEADLINES.lock().unwrap().push(a);
    Deadline { id }
}

/// End this worker (or, outside a worker, the whole check) as INCONCLUSIVE right now: threads of
/// the case under way are stuck inside the code under test and cannot be ended, and whatever
/// they hold (locks, process-wide state) would make the following cases hang as well.
pub fn give_up(kind: &str, message: &str) -> ! {
    let property = CURRENT_PROPERTY.lock().map(|p| p.clone()).unwrap_or_default();
    fire(Armed { id: 0, due: Instant::now(), property, kind: kind.to_string(), case: serde_json::Value::Null, message: message.to_string(), violation: false })
}

static CURRENT_PROPERTY: Mutex<String> = Mutex::new(String::new());

fn fire(a: Armed) -> ! {
    if a.violation {
        let replay = write_replay(&a.property, &a.kind, &a.case, &a.message);
        request_stop();
        if worker_env().is_some() {
            emit_and_exit(Stats::default(), Some(Violation { property: a.property, kind: a.kind, message: a.message, replay }), vec![]);
        }
        println!("--- {} [{}]: {}", a.property, a.kind, a.message);
        println!("VIOLATION property={} replay={}", a.property, replay.display());
        crate::driver::cleanup_temp_root();
        std::process::exit(1);
    }
    let m = format!("{} [{}]: {}", a.property, a.kind, a.message);
    if worker_env().is_some() {
        emit_and_exit(Stats::default(), None, vec![m]);
    }
    println!("INCONCLUSIVE: {m}");
    crate::driver::cleanup_temp_root();
    std::process::exit(2);
}

/// Per-case limit of the engine (seconds); generous: whole quick sub-runs take less.
pub const CASE_LIMIT_SECS: u64 = 420;

fn panic_text(p: Box<dyn std::any::Any + Send>) -> String {
    if let Some(s) = p.downcast_ref::<&str>() {
        s.to_string()
    } else if let Some(s) = p.downcast_ref::<String>() {
        s.clone()
    } else {
        "<panic>".to_string()
    }
}

/// One worker's share of an exploration, in this thread.
fn explore_shard<C, S, F>(property: &str, kind: &str, seed: u64, cases: u64, worker: u64, strategy: S, f: &F) -> (Stats, Option<Violation>, Vec<String>)
where
    C: Clone + std::fmt::Debug + Serialize,
    S: Strategy<Value = C>,
    F: Fn(&C, &mut Stats) -> CheckResult,
{
    let stats = RefCell::new(Stats::default());
    let inconc: RefCell<Vec<String>> = RefCell::new(vec![]);
    let failed = std::cell::Cell::new(false);
    let cfg = Config {
        cases: cases as u32,
        rng_seed: RngSeed::Fixed(mix(seed, kind, worker)),
        failure_persistence: None,
        max_shrink_iters: 1500,
        max_shrink_time: 20_000,
        max_global_rejects: 1 << 30,
        ..Config::default()
    };
    let mut runner = TestRunner::new(cfg);
    let res = runner.run(&strategy, |case| {
        if !failed.get() && stop_requested() {
            // another worker found something: finish quickly
            return Ok(());
        }
        let mut st = stats.borrow_mut();
        if !st.frozen {
            st.evals += 1;
        }
        if let Ok(mut p) = CURRENT_PROPERTY.lock() {
            if *p != property {
                *p = property.to_string();
            }
        }
        let _limit = deadline(CASE_LIMIT_SECS, property, kind, &case, &format!("a case did not finish within {CASE_LIMIT_SECS} s (stuck inside the code under test, or an overloaded machine)"), false);
        crate::clock::reset();
        let r = std::panic::catch_unwind(std::panic::AssertUnwindSafe(|| f(&case, &mut st)));
        crate::clock::reset();
        match r {
            Ok(Ok(())) => Ok(()),
            Ok(Err(Fail::Inconclusive(m))) => {
                if inconc.borrow().len() < 20 {
                    inconc.borrow_mut().push(m);
                }
                Ok(())
            }
            Ok(Err(Fail::Violation(m))) => {
                st.frozen = true;
                failed.set(true);
                Err(TestCaseError::fail(m))
            }
            Err(p) => {
                st.frozen = true;
                failed.set(true);
                Err(TestCaseError::fail(format!("panic while executing the case: {}", panic_text(p))))
            }
        }
    });
    let violation = match res {
        Ok(()) => None,
        Err(TestError::Fail(reason, case)) => {
            let msg = reason.message().to_string();
            let path = write_replay(property, kind, &case, &msg);
            request_stop();
            Some(Violation { property: property.to_string(), kind: kind.to_string(), message: msg, replay: path })
        }
        Err(TestError::Abort(reason)) => {
            inconc.borrow_mut().push(format!("generator aborted: {}", reason.message()));
            None
        }
    };
    let mut st = stats.into_inner();
    st.frozen = false;
    (st, violation, inconc.into_inner())
}

/// Explore `total` generated cases on all cores.  `f` is the executable property; `strategy`
/// builds the generator (once per worker).
pub fn explore<C, S, M, F>(property: &str, kind: &str, seed: u64, total: u64, strategy: M, f: F) -> SubRun
where
    C: Clone + std::fmt::Debug + Serialize,
    S: Strategy<Value = C>,
    M: Fn() -> S,
    F: Fn(&C, &mut Stats) -> CheckResult,
{
    explore_n(property, kind, seed, total, threads(), strategy, f)
}

pub fn explore_n<C, S, M, F>(property: &str, kind: &str, seed: u64, total: u64, nworkers: usize, strategy: M, f: F) -> SubRun
where
    C: Clone + std::fmt::Debug + Serialize,
    S: Strategy<Value = C>,
    M: Fn() -> S,
    F: Fn(&C, &mut Stats) -> CheckResult,
{
    let seq = SUBRUN_SEQ.fetch_add(1, Ordering::SeqCst);
    let n = nworkers.max(1).min(total.max(1) as usize);
    let share = |w: usize| total / n as u64 + if (w as u64) < total % n as u64 { 1 } else { 0 };
    match worker_env() {
        Some((target, w, wn)) => {
            if target != seq {
                return empty_subrun();
            }
            let _ = wn;
            let (st, v, i) = explore_shard(property, kind, seed, share(w), w as u64, strategy(), &f);
            emit_and_exit(st, v, i)
        }
        None if n == 1 => {
            let start = Instant::now();
            let (st, v, i) = explore_shard(property, kind, seed, total, 0, strategy(), &f);
            SubRun { stats: st, violations: v.into_iter().collect(), inconclusive: i, exhaustive: false, wall_s: start.elapsed().as_secs_f64() }
        }
        None => fan_out(seq, n),
    }
}

fn enumerate_shard<C, F>(property: &str, kind: &str, cases: &[C], w: usize, n: usize, f: &F) -> (Stats, Option<Violation>, Vec<String>)
where
    C: Clone + std::fmt::Debug + Serialize,
    F: Fn(&C, &mut Stats) -> CheckResult,
{
    let mut st = Stats::default();
    let mut inconc = vec![];
    let mut violation = None;
    for (i, case) in cases.iter().enumerate() {
        if i % n != w {
            continue;
        }
        if stop_requested() {
            break;
        }
        st.evals += 1;
        if let Ok(mut p) = CURRENT_PROPERTY.lock() {
            if *p != property {
                *p = property.to_string();
            }
        }
        let _limit = deadline(CASE_LIMIT_SECS, property, kind, case, &format!("a case did not finish within {CASE_LIMIT_SECS} s (stuck inside the code under test, or an overloaded machine)"), false);
        crate::clock::reset();
        let r = std::panic::catch_unwind(std::panic::AssertUnwindSafe(|| f(case, &mut st)));
        crate::clock::reset();
        drop(_limit);
        let msg = match r {
            Ok(Ok(())) => None,
            Ok(Err(Fail::Inconclusive(m))) => {
                if inconc.len() < 20 {
                    inconc.push(m);
                }
                None
            }
            Ok(Err(Fail::Violation(m))) => Some(m),
            Err(p) => Some(format!("panic while executing the case: {}", panic_text(p))),
        };
        if let Some(m) = msg {
            let path = write_replay(property, kind, case, &m);
            request_stop();
            violation = Some(Violation { property: property.to_string(), kind: kind.to_string(), message: m, replay: path });
            break;
        }
    }
    (st, violation, inconc)
}

/// Run an explicitly enumerated (finite, complete) list of cases on all cores.
pub fn enumerate<C, F>(property: &str, kind: &str, cases: Vec<C>, f: F) -> SubRun
where
    C: Clone + std::fmt::Debug + Serialize,
    F: Fn(&C, &mut Stats) -> CheckResult,
{
    enumerate_n(property, kind, threads(), cases, f)
}

/// `enumerate` with a bound on the number of workers (memory-hungry cases).
pub fn enumerate_n<C, F>(property: &str, kind: &str, nworkers: usize, cases: Vec<C>, f: F) -> SubRun
where
    C: Clone + std::fmt::Debug + Serialize,
    F: Fn(&C, &mut Stats) -> CheckResult,
{
    let seq = SUBRUN_SEQ.fetch_add(1, Ordering::SeqCst);
    let n = nworkers.min(threads()).max(1).min(cases.len().max(1));
    let mut out = match worker_env() {
        Some((target, w, wn)) => {
            if target != seq {
                return empty_subrun();
            }
            let (st, v, i) = enumerate_shard(property, kind, &cases, w, wn, &f);
            emit_and_exit(st, v, i)
        }
        None if n == 1 || cases.len() < 2 => {
            let start = Instant::now();
            let (st, v, i) = enumerate_shard(property, kind, &cases, 0, 1, &f);
            SubRun { stats: st, violations: v.into_iter().collect(), inconclusive: i, exhaustive: false, wall_s: start.elapsed().as_secs_f64() }
        }
        None => fan_out(seq, n),
    };
    out.exhaustive = out.violations.is_empty() && out.inconclusive.is_empty();
    out
}

/// Re-run the committed replay files of a property (plain regression checks, no generator).
pub fn replay_dir<C, F>(property: &str, kind: &str, f: F) -> SubRun
where
    C: Clone + std::fmt::Debug + Serialize + DeserializeOwned + Send + Sync + 'static,
    F: Fn(&C, &mut Stats) -> CheckResult + Send + Sync,
{
    let mut cases = vec![];
    for sub in ["golden", "replays"] {
        let dir = verif_root().join(sub).join(property);
        if let Ok(rd) = std::fs::read_dir(&dir) {
            let mut files: Vec<_> = rd.flatten().map(|e| e.path()).collect();
            files.sort();
            for p in files {
                if let Ok(text) = std::fs::read_to_string(&p) {
                    if let Ok(v) = serde_json::from_str::<Value>(&text) {
                        if v["kind"] == kind {
                            if let Ok(c) = serde_json::from_value::<C>(v["case"].clone()) {
                                cases.push(c);
                            }
                        }
                    }
                }
            }
        }
    }
    let mut r = enumerate(property, kind, cases, f);
    r.exhaustive = false;
    r
}

/// Generate a few values from a strategy (for fixtures and samples).
pub fn sample_values<S: Strategy>(strategy: &S, seed: u64, n: usize) -> Vec<S::Value> {
    let mut runner = TestRunner::new(Config { rng_seed: RngSeed::Fixed(seed), failure_persistence: None, ..Config::default() });
    (0..n).filter_map(|_| strategy.new_tree(&mut runner).ok().map(|t| t.current())).collect()
}

//! History runner: executes a symbolic `Case` against a driver, keeps the reference model in step
//! with what the server acknowledged, and applies the oracles of the sequential properties.

use crate::case::{Case, IdRef, Op};
use crate::driver::{diff_dumps, hash_bytes, Backend, Data, Driver, Dump, Outcome, Via};
use crate::engine::{CheckResult, Fail, Stats};
use crate::model::{allowed_urgency, AvPred, GcPred, IdClass, Model, SnapPred};
use std::collections::HashSet;
use std::sync::Arc;
use uuid::Uuid;

#[derive(Clone, Copy, Debug, Default)]
pub struct Oracles {
    pub c01: bool,
    pub c02: bool,
    pub c07: bool,
    pub c08: bool,
    pub c10: bool,
    pub c11: bool,
    pub c12: bool,
    pub c18: bool,
}

/// Snapshot bookkeeping as the storage API shows it.
#[derive(Clone, Debug, PartialEq, Eq)]
pub struct SnapMeta {
    pub version: Uuid,
    pub ts: i64,
    pub since: u32,
    pub data: Option<(u64, usize)>,
}

#[derive(Clone, Debug, PartialEq, Eq)]
pub struct Meta {
    pub exists: bool,
    pub latest: Uuid,
    pub snap: Option<SnapMeta>,
}

pub fn client_meta(drv: &Driver, c: Uuid) -> anyhow::Result<Meta> {
    let mut txn = drv.storage.txn(c)?;
    Ok(match txn.get_client()? {
        None => Meta { exists: false, latest: Uuid::nil(), snap: None },
        Some(cl) => {
            let snap = match cl.snapshot {
                None => None,
                Some(s) => {
                    let data = txn.get_snapshot_data(s.version_id)?;
                    Some(SnapMeta {
                        version: s.version_id,
                        ts: s.timestamp.timestamp(),
                        since: s.versions_since,
                        data: data.map(|d| (hash_bytes(&d), d.len())),
                    })
                }
            };
            Meta { exists: true, latest: cl.latest_version_id, snap }
        }
    })
}

#[derive(Clone, Debug)]
pub struct Step {
    pub idx: usize,
    pub op: Op,
    pub client: Uuid,
    pub arg: Uuid,
    pub class: IdClass,
    pub outcome: Outcome,
    /// AddSnapshot: did the stored snapshot change to the uploaded one
    pub replaced: Option<bool>,
}

pub struct Hist {
    pub drv: Driver,
    pub model: Model,
    pub clients: Vec<Uuid>,
    pub ids: Vec<Uuid>,
    idset: HashSet<Uuid>,
    /// every id the server ever issued in this run (freshness, C02)
    pub issued: HashSet<Uuid>,
    pub steps: Vec<Step>,
    pub or: Oracles,
    pub salt: u32,
    /// per client: classes of later ops seen (for C07 labels)
    pub probe_seq: u32,
    /// some snapshot was stamped in the future (then the wall clock is not stepped any more:
    /// whole-day arithmetic on ages of either sign is not worth the trouble)
    pub future_stamps: bool,
    /// this history may step the process's wall clock (only where one history at a time runs in
    /// the process: twins and two-run comparisons share the one clock and leave it alone)
    pub clock_steps: bool,
}

fn err<T>(m: String) -> Result<T, Fail> {
    Err(Fail::Violation(m))
}

fn harness(e: anyhow::Error, what: &str) -> Fail {
    // the harness's own reads through the storage API failed: this is a storage-level failure of
    // the code under test on a read path; report it as a violation of whatever is being checked
    Fail::Violation(format!("storage API failed while {what}: {e:#}"))
}

impl Hist {
    pub fn new(case: &Case, backend: Backend, via: Via, or: Oracles) -> Result<Hist, Fail> {
        let drv = Driver::new(backend, via, &case.cfg).map_err(|e| harness(e, "opening storage"))?;
        Ok(Hist::with_driver(case, drv, or))
    }

    pub fn with_driver(case: &Case, mut drv: Driver, or: Oracles) -> Hist {
        // half of the histories announce the body length the way an unchunked upload does
        drv.content_length = case.salt % 2 == 1;
        // one history in seven uploads slowly: the second half of every body arrives 11 s to 5 min
        // (of virtual time) after the first
        if case.salt % 7 == 3 {
            drv.stall_secs = [11, 31, 61, 121, 301][(case.salt / 7 % 5) as usize];
        }
        // one history in five revalidates its reads the way a caching client library would
        drv.revalidate = case.salt % 5 == 4;
        // a third of the histories carry a set of protocol-irrelevant request headers
        if case.salt % 3 == 2 {
            drv.extra_headers = 1 + ((case.salt / 3) % (crate::driver::N_EXTRA_HEADER_SETS as u32 - 1)) as u8;
        }
        let clients: Vec<Uuid> = (0..case.nclients).map(|i| crate::case::client_uuid(case.salt, i)).collect();
        Hist {
            drv,
            model: Model::default(),
            clients,
            ids: vec![],
            idset: HashSet::new(),
            issued: HashSet::new(),
            steps: vec![],
            or,
            salt: case.salt,
            probe_seq: 0,
            future_stamps: false,
            clock_steps: false,
        }
    }

    pub fn know(&mut self, id: Uuid) {
        if !id.is_nil() && self.idset.insert(id) {
            self.ids.push(id);
        }
    }

    pub fn resolve(&self, r: &IdRef) -> Uuid {
        let cl = |k: &u8| self.model.client(self.clients[(*k as usize) % self.clients.len()]);
        match r {
            IdRef::Nil => Uuid::nil(),
            IdRef::Latest(k) => cl(k).latest(),
            IdRef::Ancestor(k, back) => {
                let m = cl(k);
                let n = m.chain.len();
                let b = *back as usize;
                if b < n {
                    m.chain[n - 1 - b].id
                } else {
                    m.base()
                }
            }
            IdRef::Base(k) => cl(k).base(),
            IdRef::SnapVersion(k) => cl(k).snap.map(|s| s.version).unwrap_or(Uuid::nil()),
            IdRef::Fresh(l) => crate::case::fresh_uuid(*l),
            IdRef::Literal(u) => *u,
            IdRef::OfClients(a, b, mode) => {
                let ca = *self.clients[(*a as usize) % self.clients.len()].as_bytes();
                let cb = *self.clients[(*b as usize) % self.clients.len()].as_bytes();
                let mut out = ca;
                match mode % 4 {
                    0 => {}
                    1 => {
                        for i in 0..16 {
                            out[i] = ca[i] ^ cb[i];
                        }
                    }
                    2 => {
                        for x in out.iter_mut() {
                            *x = !*x;
                        }
                    }
                    _ => out.reverse(),
                }
                Uuid::from_bytes(out)
            }
            IdRef::Near(k, back, mode) => {
                let base = self.resolve(&IdRef::Ancestor(*k, *back));
                let mut b = *base.as_bytes();
                match mode % 4 {
                    0 => b[15] ^= 0x01,
                    1 => b[0] ^= 0x10,
                    2 => {
                        for x in b[10..].iter_mut() {
                            *x ^= 0x5A;
                        }
                    }
                    _ => {
                        for x in b[..6].iter_mut() {
                            *x ^= 0xA5;
                        }
                    }
                }
                Uuid::from_bytes(b)
            }
        }
    }

    /// A run-independent name for an id: own chain positions (and, unless `own_only`, other
    /// clients' chain positions) instead of the random ids the server issued.
    pub fn label_id(&self, own: Uuid, id: Uuid, own_only: bool) -> String {
        if id.is_nil() {
            return "nil".into();
        }
        if let Some(p) = self.model.client(own).pos(id) {
            return format!("own.v{p}");
        }
        if !own_only {
            for (k, c) in self.clients.iter().enumerate() {
                if let Some(p) = self.model.client(*c).pos(id) {
                    return format!("c{k}.v{p}");
                }
            }
        }
        id.to_string()
    }

    /// Canonical text of an outcome (ids renamed, payloads hashed), for comparing two runs.
    pub fn canon(&self, own: Uuid, o: &Outcome, own_only: bool) -> String {
        let l = |id: &Uuid| self.label_id(own, *id, own_only);
        match o {
            Outcome::Accepted { id, urgency } => format!("Accepted({},{urgency:?})", l(id)),
            Outcome::Conflict { latest } => format!("Conflict({})", l(latest)),
            Outcome::Found { id, parent, data } => format!("Found({},{},{}B:{:016x})", l(id), l(parent), data.len(), hash_bytes(data)),
            Outcome::Snapshot { id, data } => format!("Snapshot({},{}B:{:016x})", l(id), data.len(), hash_bytes(data)),
            Outcome::Error { what } => format!("Error({what})"),
            o => format!("{o:?}"),
        }
    }

    pub fn dump(&self) -> Result<Dump, Fail> {
        self.drv.dump(&self.clients, &self.ids).map_err(|e| harness(e, "dumping state"))
    }

    pub fn meta(&self, c: Uuid) -> Result<Meta, Fail> {
        client_meta(&self.drv, c).map_err(|e| harness(e, "reading the client record"))
    }

    pub fn state_class(&self, c: Uuid) -> &'static str {
        let m = self.model.client(c);
        if m.chain.is_empty() {
            "empty"
        } else if m.snap.is_some() {
            if m.base().is_nil() { "nilbase+snap" } else { "nonnilbase+snap" }
        } else if m.base().is_nil() {
            "nilbase"
        } else {
            "nonnilbase"
        }
    }

    fn class_label(k: IdClass) -> String {
        match k {
            IdClass::Ancestor(n) if n >= 5 => "Ancestor(5+)".to_string(),
            o => format!("{o:?}"),
        }
    }

    /// Execute one op, apply the enabled oracles, update the model.
    pub fn step(&mut self, idx: usize, op: &Op, st: &mut Stats) -> CheckResult {
        match op {
            Op::Reopen => {
                if self.drv.backend == Backend::Sqlite {
                    self.drv.reopen().map_err(|e| Fail::Violation(format!("step {idx}: reopening the database failed: {e:#}")))?;
                    st.label("op:Reopen");
                }
                Ok(())
            }
            Op::AgeSnapshot { c, days } => {
                let c = self.clients[*c as usize % self.clients.len()];
                let age = crate::case::age_days(*days);
                let done = self.drv.age_snapshot(c, age).map_err(|e| harness(e, "ageing the snapshot"))?;
                if done {
                    if let Some(s) = &mut self.model.client_mut(c).snap {
                        s.days = crate::case::observed_age_days(age);
                    }
                    if age < 0 {
                        st.label("op:AgeSnapshot(stamped-in-the-future)");
                        self.future_stamps = true;
                    }
                    // every third time (in-process servers only) the wall clock is stepped forward
                    // by whole days on top - an NTP correction, a resumed VM: every stored snapshot
                    // is that much older at once, whatever the process's monotonic clock says
                    if self.clock_steps && self.drv.ext.is_none() && !self.future_stamps && (self.salt as usize + idx) % 3 == 0 {
                        let j = [1i64, 2, 5][(self.salt as usize / 3 + idx) % 3];
                        crate::clock::step(j * 86400);
                        let ids: Vec<Uuid> = self.model.clients.keys().copied().collect();
                        for id in ids {
                            if let Some(s) = &mut self.model.client_mut(id).snap {
                                s.days += j;
                            }
                        }
                        st.label("op:AgeSnapshot(wall-clock-stepped-forward)");
                    } else if self.clock_steps && self.drv.ext.is_none() && !self.future_stamps && (self.salt as usize + idx) % 3 == 1 {
                        // ... or there and back: the clock runs ahead for a while, a client nobody
                        // else knows syncs meanwhile (a version and a snapshot of its own), then
                        // the clock is corrected.  For everybody else nothing has happened.
                        let j = [1i64, 4, 30][(self.salt as usize / 3 + idx) % 3];
                        crate::clock::step(j * 86400);
                        let visitor = crate::case::client_uuid(self.salt ^ 0x5A5A, 200);
                        if let Outcome::Accepted { id, .. } = self.drv.add_version(visitor, Uuid::nil(), b"while the clock ran ahead") {
                            let _ = self.drv.add_snapshot(visitor, id, b"snapshot taken while the clock ran ahead");
                            let _ = self.drv.add_version(visitor, id, b"and one more");
                        }
                        crate::clock::step(-j * 86400);
                        st.label("op:AgeSnapshot(wall-clock-ahead-and-corrected)");
                    }
                    if *days >= 60000 {
                        st.label("op:AgeSnapshot(calendar-landmark)");
                    }
                    st.label("op:AgeSnapshot(applied)");
                }
                Ok(())
            }
            Op::NewClient { c } => {
                let c = self.clients[*c as usize % self.clients.len()];
                if self.drv.new_empty_client(c).map_err(|e| harness(e, "creating an empty client record"))? {
                    self.model.client_mut(c).exists = true;
                    st.label("op:NewClient(applied)");
                }
                Ok(())
            }
            Op::AddVersion { c, parent, data } => {
                let c = self.clients[*c as usize % self.clients.len()];
                let p = self.resolve(parent);
                self.know(p);
                let bytes: Data = Arc::new(self.body_for(data, st));
                if self.clock_steps && !self.future_stamps && self.drv.via == Via::Http && self.drv.ext.is_none() && bytes.len() >= 2 && (self.salt as usize + idx) % 11 == 5 {
                    // the wall clock jumps forward while this upload's body is in transit: what the
                    // answer says about the snapshot's age is the age at acceptance
                    let j = [1i64, 3][idx % 2];
                    self.drv.step_during_upload = j;
                    let ids: Vec<Uuid> = self.model.clients.keys().copied().collect();
                    for id in ids {
                        if let Some(s) = &mut self.model.client_mut(id).snap {
                            s.days += j;
                        }
                    }
                    st.label("op:AddVersion(wall-clock-stepped-during-the-upload)");
                }
                self.do_add_version(idx, op, c, p, bytes, st)
            }
            Op::GetChild { c, parent } => {
                let c = self.clients[*c as usize % self.clients.len()];
                let p = self.resolve(parent);
                self.know(p);
                self.do_get_child(idx, op, c, p, st)
            }
            Op::AddSnapshot { c, version, data } => {
                let c = self.clients[*c as usize % self.clients.len()];
                let v = self.resolve(version);
                self.know(v);
                let bytes: Data = Arc::new(self.body_for(data, st));
                self.do_add_snapshot(idx, op, c, v, bytes, st)
            }
            Op::GetSnapshot { c } => {
                let c = self.clients[*c as usize % self.clients.len()];
                self.do_get_snapshot(idx, op, c, st)
            }
        }
    }

    /// The payload of an upload.  A zero-length payload is a valid argument of the library entry
    /// points; the HTTP handlers refuse an empty body (C15's business), so a history driven over
    /// HTTP sends one byte instead.
    fn body_for(&self, data: &crate::case::BytesSpec, st: &mut Stats) -> Vec<u8> {
        let b = data.expand();
        if b.is_empty() {
            if self.drv.via != Via::Lib {
                return vec![0u8];
            }
            st.label("payload:empty");
        }
        b
    }

    fn do_add_version(&mut self, idx: usize, op: &Op, c: Uuid, p: Uuid, bytes: Data, st: &mut Stats) -> CheckResult {
        let mc = self.model.client(c);
        let class = self.model.classify(c, p);
        let pred = mc.predict_add_version(p);
        let state = self.state_class(c);
        let want_dump = (self.or.c02 || self.or.c18) && pred != AvPred::Accept;
        let before = if want_dump { Some(self.dump()?) } else { None };
        let meta_before = if self.or.c02 { Some(self.meta(c)?) } else { None };

        // C08: the GetChild half of the equivalence, evaluated on the same state
        let gc = if self.or.c08 { Some(self.drv.get_child(c, p)) } else { None };

        let out = self.drv.add_version(c, p, &bytes);
        st.label(&format!("AddVersion:{}:{}", out.class(), Self::class_label(class)));

        if let Some(gc) = gc {
            self.c08_relation(idx, c, p, &gc, &out, class, state, st)?;
        }

        if self.or.c02 {
            st.check();
            match (&pred, &out) {
                (AvPred::Accept, Outcome::Accepted { id, .. }) => {
                    if id.is_nil() {
                        return err(format!("step {idx}: AddVersion accepted with a nil version id"));
                    }
                    if self.issued.contains(id) || self.idset.contains(id) {
                        return err(format!("step {idx}: AddVersion issued id {id}, which was already seen in this history"));
                    }
                    let after = self.meta(c)?;
                    let mb = meta_before.clone().unwrap();
                    if after.latest != *id {
                        return err(format!("step {idx}: accepted version {id} did not become the latest (latest={})", after.latest));
                    }
                    // stored with exactly the submitted parent and payload
                    let d = self.drv.api_dump(&[c], &[*id, p]).map_err(|e| harness(e, "reading back the version"))?;
                    let cd = &d.clients[&c];
                    match cd.versions.get(id) {
                        Some((par, h, len)) if *par == p && *h == hash_bytes(&bytes) && *len == bytes.len() => {}
                        o => return err(format!("step {idx}: accepted version {id} not stored as submitted (parent {p}, {} bytes): storage has {o:?}", bytes.len())),
                    }
                    if cd.by_parent.get(&p) != Some(id) {
                        return err(format!("step {idx}: lookup by parent {p} gives {:?}, expected {id}", cd.by_parent.get(&p)));
                    }
                    // counter +1 iff a snapshot exists; nothing else about the snapshot moves
                    match (&mb.snap, &after.snap) {
                        (None, None) => {}
                        (Some(b), Some(a)) => {
                            if a.version != b.version || a.ts != b.ts || a.data != b.data || a.since != b.since.wrapping_add(1) {
                                return err(format!("step {idx}: accepted AddVersion changed snapshot bookkeeping from {b:?} to {a:?} (expected only versions_since + 1)"));
                            }
                        }
                        (b, a) => return err(format!("step {idx}: accepted AddVersion changed snapshot presence: {b:?} -> {a:?}")),
                    }
                    if mc.snap.is_some() || !matches!(class, IdClass::Latest) {
                        st.nontrivial(&("c02-accept", state, class, mc.chain.len().min(8)));
                    }
                }
                (AvPred::Conflict(l), Outcome::Conflict { latest }) => {
                    if latest != l {
                        return err(format!("step {idx}: conflict names {latest}, but the latest acknowledged version is {l}"));
                    }
                    let after = self.dump()?;
                    if let Some(d) = diff_dumps(before.as_ref().unwrap(), &after) {
                        return err(format!("step {idx}: rejected AddVersion changed stored state: {d}"));
                    }
                    st.nontrivial(&("c02-reject", state, class, mc.chain.len().min(8)));
                }
                (p_, o) => {
                    return err(format!(
                        "step {idx}: AddVersion(parent={p} [{class:?}]) on a client with {} versions (latest {}): expected {p_:?}, got {}",
                        mc.chain.len(),
                        mc.latest(),
                        o.short()
                    ))
                }
            }
        }

        if self.or.c18 {
            if let Outcome::Conflict { .. } = &out {
                let after = self.dump()?;
                if let Some(b) = &before {
                    if let Some(d) = diff_dumps(b, &after) {
                        return err(format!("step {idx}: conflicting AddVersion changed stored state: {d}"));
                    }
                    self.c18_count("conflict", c, st);
                }
            }
        }

        if self.or.c12 {
            if let Outcome::Accepted { urgency, .. } = &out {
                let snap = mc.snap.as_ref().map(|s| (s.since, s.days));
                let allowed = allowed_urgency(&self.drv.cfg, snap);
                if !allowed.contains(urgency) {
                    return err(format!(
                        "step {idx}: accepted AddVersion reported urgency {urgency:?}; with targets days={} versions={} and snapshot {:?} (versions since, age in days) the statement allows {allowed:?}",
                        self.drv.cfg.snapshot_days, self.drv.cfg.snapshot_versions, snap
                    ));
                }
                st.label(&format!("urgency:{urgency:?}"));
                st.check();
                if let Some((since, days)) = snap {
                    let t = self.drv.cfg.snapshot_versions as i128;
                    let near = |m: i128, t: i128| (m - t).abs() <= 1 || (2 * m - 3 * t).abs() <= 3;
                    if near(since as i128, t) || near(days as i128, self.drv.cfg.snapshot_days as i128) {
                        st.nontrivial(&("c12-hist", self.drv.cfg.snapshot_days, self.drv.cfg.snapshot_versions, since, days));
                    }
                }
            }
        }

        // any other oracle: an error outcome is never acceptable for a well-formed request
        if out.is_error() && (self.or.c01 || self.or.c07 || self.or.c10 || self.or.c11 || self.or.c12 || self.or.c08) {
            return err(format!("step {idx}: AddVersion failed: {}", out.short()));
        }

        if let Outcome::Accepted { id, .. } = &out {
            if self.or.c01 {
                // (i) no two acknowledged versions share a parent
                if mc.child_of(p).is_some() {
                    return err(format!("step {idx}: version {id} acknowledged with parent {p}, which already has the acknowledged child {}", mc.chain[mc.child_of(p).unwrap()].id));
                }
            }
            self.issued.insert(*id);
            self.know(*id);
            self.model.client_mut(c).apply_accept(*id, p, bytes);
        }
        self.steps.push(Step { idx, op: op.clone(), client: c, arg: p, class, outcome: out, replaced: None });
        Ok(())
    }

    #[allow(clippy::too_many_arguments)]
    fn c08_relation(&mut self, idx: usize, c: Uuid, p: Uuid, gc: &Outcome, av: &Outcome, class: IdClass, state: &'static str, st: &mut Stats) -> CheckResult {
        let mc = self.model.client(c);
        let accepted = match av {
            Outcome::Accepted { .. } => true,
            Outcome::Conflict { .. } => false,
            o => return err(format!("step {idx}: AddVersion(parent={p}) answered {}", o.short())),
        };
        st.label(&format!("c08:{}:{}:{}", state, Self::class_label(class), gc.class()));
        st.check();
        if let Some(i) = mc.child_of(p) {
            let v = &mc.chain[i];
            match gc {
                Outcome::Found { id, parent, data } if *id == v.id && *parent == v.parent && **data == *v.data => {}
                o => return err(format!("step {idx}: GetChildVersion({p}) should return the acknowledged child {} but answered {}", v.id, o.short())),
            }
            if accepted {
                return err(format!("step {idx}: AddVersion on parent {p}, which already has child {}, was accepted", v.id));
            }
        } else {
            match gc {
                Outcome::NotFound | Outcome::NoSuchClient => {
                    if matches!(gc, Outcome::NoSuchClient) && mc.exists {
                        return err(format!("step {idx}: GetChildVersion says no such client for a client with acknowledged versions"));
                    }
                    if !accepted {
                        return err(format!("step {idx}: GetChildVersion({p}) answered not-found, but AddVersion with the same parent on the same state was rejected ({})", av.short()));
                    }
                }
                Outcome::Gone => {
                    if accepted {
                        return err(format!("step {idx}: GetChildVersion({p}) answered gone, but AddVersion with the same parent on the same state was accepted"));
                    }
                }
                o => return err(format!("step {idx}: GetChildVersion({p}) has no child to return but answered {}", o.short())),
            }
        }
        // cross-check with the model
        let pred = mc.predict_get_child(p);
        let ok = match (&pred, gc) {
            (GcPred::NoSuchClient, Outcome::NoSuchClient | Outcome::NotFound) => true,
            (GcPred::Found(_), Outcome::Found { .. }) => true,
            (GcPred::NotFound, Outcome::NotFound) => true,
            (GcPred::Gone, Outcome::Gone) => true,
            _ => false,
        };
        if !ok {
            return err(format!("step {idx}: GetChildVersion({p} [{class:?}]) answered {}, the statement requires {pred:?}", gc.short()));
        }
        if !mc.chain.is_empty() && class != IdClass::Latest {
            st.nontrivial(&("c08", state, Self::class_label(class)));
        }
        Ok(())
    }

    fn c18_count(&self, what: &str, c: Uuid, st: &mut Stats) {
        let holders = self.model.clients.values().filter(|m| !m.chain.is_empty()).count();
        let has_snap = self.model.client(c).snap.is_some();
        st.label(&format!("c18:{what}"));
        st.check();
        if has_snap || holders >= 2 {
            st.nontrivial(&("c18", what, self.state_class(c), holders.min(3), self.model.client(c).chain.len().min(6)));
        }
    }

    fn do_get_child(&mut self, idx: usize, op: &Op, c: Uuid, p: Uuid, st: &mut Stats) -> CheckResult {
        let mc = self.model.client(c);
        let class = self.model.classify(c, p);
        let before = if self.or.c18 { Some(self.dump()?) } else { None };
        let out = self.drv.get_child(c, p);
        st.label(&format!("GetChild:{}:{}", out.class(), Self::class_label(class)));
        if self.or.c18 {
            let after = self.dump()?;
            if let Some(d) = diff_dumps(before.as_ref().unwrap(), &after) {
                return err(format!("step {idx}: GetChildVersion({p}) -> {} changed stored state: {d}", out.short()));
            }
            self.c18_count(&format!("get-child:{}", out.class()), c, st);
        }
        if self.or.c01 || self.or.c07 || self.or.c08 {
            let pred = mc.predict_get_child(p);
            let ok = match (&pred, &out) {
                (GcPred::NoSuchClient, Outcome::NoSuchClient | Outcome::NotFound) => true,
                (GcPred::Found(i), Outcome::Found { id, parent, data }) => {
                    let v = &mc.chain[*i];
                    *id == v.id && *parent == v.parent && **data == *v.data
                }
                (GcPred::NotFound, Outcome::NotFound) => true,
                (GcPred::Gone, Outcome::Gone) => true,
                _ => false,
            };
            // C01 and C07 only care about Found answers; C08 about the whole table
            let relevant = self.or.c08 || matches!(pred, GcPred::Found(_)) || matches!(out, Outcome::Found { .. }) || out.is_error();
            if !ok && relevant {
                return err(format!("step {idx}: GetChildVersion({p} [{class:?}]) answered {}, expected {pred:?} (client has {} acknowledged versions)", out.short(), mc.chain.len()));
            }
        } else if out.is_error() && (self.or.c10 || self.or.c11 || self.or.c12 || self.or.c02) {
            return err(format!("step {idx}: GetChildVersion failed: {}", out.short()));
        }
        self.steps.push(Step { idx, op: op.clone(), client: c, arg: p, class, outcome: out, replaced: None });
        Ok(())
    }

    fn do_add_snapshot(&mut self, idx: usize, op: &Op, c: Uuid, v: Uuid, bytes: Data, st: &mut Stats) -> CheckResult {
        let mc = self.model.client(c);
        let class = self.model.classify(c, v);
        let pred = mc.predict_add_snapshot(v);
        let meta_before = self.meta(c)?;
        let before = if (self.or.c18 || self.or.c10) && pred != SnapPred::Replace { Some(self.dump()?) } else { None };
        let t0 = chrono::Utc::now().timestamp();
        let out = self.drv.add_snapshot(c, v, &bytes);
        let t1 = chrono::Utc::now().timestamp();
        let meta_after = self.meta(c)?;
        let replaced_form = meta_after.snap.as_ref().map(|s| s.version == v && s.since == 0 && s.data == Some((hash_bytes(&bytes), bytes.len()))).unwrap_or(false);
        let changed = meta_after != meta_before;
        // observation used to keep the model in step: metadata now names v with a zero counter and
        // something changed
        let observed_replace = changed && meta_after.snap.as_ref().map(|s| s.version == v && s.since == 0).unwrap_or(false);
        let snap_pos = mc.snap.as_ref().and_then(|s| mc.pos(s.version)).map(|p| mc.chain.len() - 1 - p);
        st.label(&format!(
            "AddSnapshot:{}:{}:{}",
            out.class(),
            Self::class_label(class),
            if observed_replace { "replaced" } else { "kept" }
        ));

        match (&pred, &out) {
            (SnapPred::NoSuchClient, Outcome::NoSuchClient) => {}
            (SnapPred::NoSuchClient, o) | (_, o @ Outcome::NoSuchClient) => {
                if self.or.c10 || self.or.c11 {
                    return err(format!("step {idx}: AddSnapshot({v}) answered {}, expected {pred:?}", o.short()));
                }
            }
            (_, Outcome::SnapshotOk) => {}
            (_, o) => {
                if self.or.c10 || self.or.c11 || self.or.c01 || self.or.c02 || self.or.c07 || self.or.c12 || self.or.c08 {
                    return err(format!("step {idx}: AddSnapshot({v} [{class:?}]) must be answered with success, got {}", o.short()));
                }
            }
        }

        if self.or.c10 && pred != SnapPred::NoSuchClient {
            st.check();
            let fresh_ts = |s: &crate::hist::SnapMeta| s.ts >= t0 - 1 && s.ts <= t1 + 1;
            let describe = format!(
                "AddSnapshot({v} [{class:?}]) on a chain of {} versions (base {}), stored snapshot {}",
                mc.chain.len(),
                if mc.base().is_nil() { "nil" } else { "non-nil" },
                match (&mc.snap, snap_pos) {
                    (None, _) => "none".to_string(),
                    (Some(_), Some(p)) => format!("{p} back from latest"),
                    (Some(s), None) => format!("at off-chain id {}", s.version),
                }
            );
            match pred {
                SnapPred::Replace => {
                    if !(replaced_form && meta_after.snap.as_ref().map(fresh_ts).unwrap_or(false)) {
                        return err(format!("step {idx}: {describe}: the statement requires the snapshot to be replaced (version {v}, uploaded bytes, counter 0, fresh time) but storage shows {:?} (before: {:?})", meta_after.snap, meta_before.snap));
                    }
                }
                SnapPred::Decline => {
                    if changed {
                        return err(format!("step {idx}: {describe}: the statement requires the stored snapshot to stay untouched, but it went from {:?} to {:?}", meta_before.snap, meta_after.snap));
                    }
                    let after = self.dump()?;
                    if let Some(d) = diff_dumps(before.as_ref().unwrap(), &after) {
                        return err(format!("step {idx}: {describe}: declined AddSnapshot changed stored state: {d}"));
                    }
                }
                SnapPred::Either => {
                    if changed && !(replaced_form && meta_after.snap.as_ref().map(fresh_ts).unwrap_or(false)) {
                        return err(format!("step {idx}: {describe}: base corner: state is neither untouched nor a clean replacement: {:?} -> {:?}", meta_before.snap, meta_after.snap));
                    }
                    st.label("c10:base-corner");
                }
                SnapPred::NoSuchClient => {}
            }
            if meta_after.latest != meta_before.latest || meta_after.exists != meta_before.exists {
                return err(format!("step {idx}: AddSnapshot moved the latest pointer / client record: {meta_before:?} -> {meta_after:?}"));
            }
            // monotonicity: the snapshot never moves to an older version
            if let (Some(b), Some(a)) = (&meta_before.snap, &meta_after.snap) {
                if let (Some(pb), Some(pa)) = (mc.pos(b.version), mc.pos(a.version)) {
                    if pa < pb {
                        return err(format!("step {idx}: snapshot moved backwards along the chain, from position {pb} to {pa}"));
                    }
                }
            }
            let n = mc.chain.len();
            let vpos_back = mc.pos(v).map(|p| n - 1 - p);
            let edge = matches!(vpos_back, Some(4) | Some(5));
            if edge || (mc.snap.is_some() && mc.snap.as_ref().map(|s| s.version) != Some(v)) || matches!(class, IdClass::Foreign | IdClass::Base) {
                st.nontrivial(&("c10", n.min(12), mc.base().is_nil(), snap_pos.map(|p| p.min(12)), Self::class_label(class), vpos_back.map(|p| p.min(12))));
            }
        }

        if self.or.c18 && pred == SnapPred::Decline {
            let after = self.dump()?;
            if let Some(d) = diff_dumps(before.as_ref().unwrap(), &after) {
                return err(format!("step {idx}: declined AddSnapshot({v} [{class:?}]) changed stored state: {d}"));
            }
            self.c18_count("declined-snapshot", c, st);
        } else if self.or.c18 && pred == SnapPred::Either {
            st.label("c18:skipped-base-corner");
        }

        if self.or.c11 && pred == SnapPred::Replace && matches!(out, Outcome::SnapshotOk) {
            // an upload the acceptance rule accepts *is* the most recently accepted snapshot from
            // now on: version id and bytes of this very upload
            st.check();
            match self.drv.get_snapshot(c) {
                Outcome::Snapshot { id, data } if id == v && *data == *bytes => {}
                o => {
                    return err(format!(
                        "step {idx}: AddSnapshot({v} [{class:?}], {} bytes, hash {:016x}) is accepted by the rule (among the five most recent versions, newer than the stored snapshot {:?}); GetSnapshot right afterwards answered {}",
                        bytes.len(),
                        hash_bytes(&bytes),
                        mc.snap.as_ref().map(|s| s.version),
                        match &o {
                            Outcome::Snapshot { id, data } => format!("({id}, {} bytes, hash {:016x})", data.len(), hash_bytes(data)),
                            o => o.short(),
                        }
                    ))
                }
            }
        }
        if observed_replace {
            self.model.client_mut(c).apply_snapshot(v, bytes);
        }
        self.steps.push(Step { idx, op: op.clone(), client: c, arg: v, class, outcome: out, replaced: Some(observed_replace) });
        Ok(())
    }

    fn do_get_snapshot(&mut self, idx: usize, op: &Op, c: Uuid, st: &mut Stats) -> CheckResult {
        let before = if self.or.c18 { Some(self.dump()?) } else { None };
        let out = self.drv.get_snapshot(c);
        st.label(&format!("GetSnapshot:{}", out.class()));
        if self.or.c18 {
            let after = self.dump()?;
            if let Some(d) = diff_dumps(before.as_ref().unwrap(), &after) {
                return err(format!("step {idx}: GetSnapshot -> {} changed stored state: {d}", out.short()));
            }
            self.c18_count(&format!("get-snapshot:{}", out.class()), c, st);
        }
        if self.or.c11 {
            self.c11_check(idx, c, &out, st)?;
        } else if out.is_error() && (self.or.c01 || self.or.c02 || self.or.c07 || self.or.c10 || self.or.c12 || self.or.c08) {
            return err(format!("step {idx}: GetSnapshot failed: {}", out.short()));
        }
        self.steps.push(Step { idx, op: op.clone(), client: c, arg: Uuid::nil(), class: IdClass::Nil, outcome: out, replaced: None });
        Ok(())
    }

    /// C11: the answer is the most recently accepted upload (id and bytes from the same upload).
    pub fn c11_check(&mut self, idx: usize, c: Uuid, out: &Outcome, _st: &mut Stats) -> CheckResult {
        let mc = self.model.client(c);
        match (&mc.snap, out) {
            (None, Outcome::NoSnapshot) => Ok(()),
            (None, Outcome::NoSuchClient) if !mc.exists => Ok(()),
            (Some(s), Outcome::Snapshot { id, data }) => {
                if *id != s.version || **data != *s.data {
                    return err(format!(
                        "step {idx}: GetSnapshot returned ({id}, {} bytes, hash {:016x}); the most recently accepted upload was ({}, {} bytes, hash {:016x})",
                        data.len(), hash_bytes(data), s.version, s.data.len(), hash_bytes(&s.data)
                    ));
                }
                Ok(())
            }
            (m, o) => err(format!("step {idx}: GetSnapshot answered {}, expected {}", o.short(), match m {
                None => "not-found".to_string(),
                Some(s) => format!("snapshot at {}", s.version),
            })),
        }
    }

    /// C11 second half: from the snapshot version the chain can be followed to the latest version
    /// through Found answers only, ending in not-found.
    pub fn c11_walk(&mut self, idx: usize, c: Uuid, st: &mut Stats) -> CheckResult {
        let out = self.drv.get_snapshot(c);
        self.c11_check(idx, c, &out, st)?;
        let Outcome::Snapshot { id, .. } = out else { return Ok(()) };
        let mc = self.model.client(c);
        let mut p = id;
        let mut n = 0usize;
        loop {
            match self.drv.get_child(c, p) {
                Outcome::Found { id, parent, .. } => {
                    if parent != p {
                        return err(format!("after step {idx}: walking from the snapshot: child of {p} reports parent {parent}"));
                    }
                    p = id;
                    n += 1;
                    if n > mc.chain.len() + 1 {
                        return err(format!("after step {idx}: walk from the snapshot version does not terminate"));
                    }
                }
                Outcome::NotFound => break,
                o => return err(format!("after step {idx}: walking from snapshot version {id} ({n} steps in, at {p}) was answered {}; a snapshot must be a usable base", o.short())),
            }
        }
        if p != mc.latest() {
            return err(format!("after step {idx}: walk from snapshot version {id} ended at {p}, not at the latest acknowledged version {}", mc.latest()));
        }
        st.label("c11:walk");
        st.check();
        if n >= 1 && (mc.snaps_accepted >= 2 || self.steps.iter().any(|s| s.client == c && s.replaced == Some(false) && matches!(s.op, Op::AddSnapshot { .. }))) {
            st.nontrivial(&("c11", mc.chain.len().min(10), n.min(10), mc.snaps_accepted.min(4), mc.base().is_nil()));
        }
        Ok(())
    }

    /// C01 (ii)/(iii): walk the chain of `c` through the protocol and compare with the log.
    pub fn c01_walk(&mut self, idx: usize, c: Uuid, st: &mut Stats) -> CheckResult {
        let mc = self.model.client(c);
        if mc.chain.is_empty() {
            // (iii) nothing acknowledged: every id answers not-found
            let probes = [Uuid::nil(), crate::case::fresh_uuid(7), self.ids.first().copied().unwrap_or(Uuid::nil())];
            for p in probes {
                match self.drv.get_child(c, p) {
                    Outcome::NotFound | Outcome::NoSuchClient => {}
                    o => return err(format!("after step {idx}: client without acknowledged versions: GetChildVersion({p}) answered {}", o.short())),
                }
            }
            return Ok(());
        }
        let mut p = mc.base();
        for (i, v) in mc.chain.iter().enumerate() {
            match self.drv.get_child(c, p) {
                Outcome::Found { id, parent, data } => {
                    if id != v.id || parent != v.parent || *data != *v.data {
                        return err(format!(
                            "after step {idx}: walking the chain: position {i}: child of {p} is ({id}, parent {parent}, {} bytes) but the version acknowledged there was ({}, parent {}, {} bytes)",
                            data.len(), v.id, v.parent, v.data.len()
                        ));
                    }
                    p = id;
                }
                o => return err(format!("after step {idx}: walking the chain: position {i} of {}: GetChildVersion({p}) answered {} instead of the acknowledged version {}", mc.chain.len(), o.short(), v.id)),
            }
        }
        match self.drv.get_child(c, p) {
            Outcome::NotFound => {}
            o => return err(format!("after step {idx}: at the latest version {p} GetChildVersion answered {} instead of not-found", o.short())),
        }
        st.label("c01:walk");
        st.check();
        let rejected_or_snap = self.steps.iter().any(|s| matches!(s.outcome, Outcome::Conflict { .. }) || matches!(s.op, Op::AddSnapshot { .. }));
        if mc.chain.len() >= 2 && rejected_or_snap {
            let shape: Vec<(u8, &'static str)> = self.steps.iter().map(|s| (s.op.client().unwrap_or(9), s.outcome.class())).collect();
            st.nontrivial(&("c01", shape, mc.base().is_nil(), self.drv.reopens));
        }
        Ok(())
    }

    /// C07: re-read every acknowledged version of every client.
    pub fn c07_reread(&mut self, idx: usize, later: &'static str, st: &mut Stats) -> CheckResult {
        let clients = self.clients.clone();
        for c in clients {
            let mc = self.model.client(c);
            for (i, v) in mc.chain.iter().enumerate() {
                match self.drv.get_child(c, v.parent) {
                    Outcome::Found { id, parent, data } if id == v.id && parent == v.parent && *data == *v.data => {
                        st.check();
                        st.nontrivial(&("c07", i.min(6), mc.chain.len().min(8), later, mc.snap.is_some()));
                    }
                    o => return err(format!(
                        "after step {idx} ({later}): acknowledged version {} (position {i}, parent {}, {} bytes) now reads back as {}",
                        v.id, v.parent, v.data.len(), o.short()
                    )),
                }
            }
        }
        st.label(&format!("c07:reread-after:{later}"));
        Ok(())
    }
}

pub fn later_class(s: Option<&Step>, op: &Op) -> &'static str {
    match (op, s.map(|s| &s.outcome)) {
        (Op::Reopen, _) => "reopen",
        (Op::AgeSnapshot { .. }, _) => "age",
        (_, Some(Outcome::Accepted { .. })) => "accepted-version",
        (_, Some(Outcome::Conflict { .. })) => "rejected-version",
        (Op::AddSnapshot { .. }, Some(_)) => "add-snapshot",
        (Op::GetChild { .. }, _) => "get-child",
        (Op::GetSnapshot { .. }, _) => "get-snapshot",
        _ => "other",
    }
}

/// Run a whole case with the given oracles.
pub fn run_history(case: &Case, backend: Backend, via: Via, or: Oracles, st: &mut Stats) -> CheckResult {
    let t_start = std::time::Instant::now();
    let mut h = Hist::new(case, backend, via, or)?;
    h.clock_steps = !crate::clock::is_frozen();
    let n = case.ops.len();
    st.label(&format!("driver:{backend:?}/{via:?}"));
    for (idx, op) in case.ops.iter().enumerate() {
        let steps_before = h.steps.len();
        h.step(idx, op, st)?;
        let last = if h.steps.len() > steps_before { h.steps.last().cloned() } else { None };
        let walk_now = n <= 12 || idx + 1 == n || (n <= 200 && crate::engine::mix(case.salt as u64, "walk", idx as u64) % 8 == 0);
        if or.c01 && walk_now {
            let clients = h.clients.clone();
            for c in clients {
                h.c01_walk(idx, c, st)?;
            }
        }
        if or.c07 {
            let later = later_class(last.as_ref(), op);
            h.c07_reread(idx, later, st)?;
        }
        if or.c11 {
            // after every op: GetSnapshot of the op's client; walk after accepted snapshots and
            // at the end
            if let Some(c) = op.client() {
                let c = h.clients[c as usize % h.clients.len()];
                let replaced = last.as_ref().and_then(|s| s.replaced).unwrap_or(false);
                if replaced || idx + 1 == n || walk_now {
                    h.c11_walk(idx, c, st)?;
                } else {
                    let out = h.drv.get_snapshot(c);
                    h.c11_check(idx, c, &out, st)?;
                }
            }
        }
    }
    st.label_n(&format!("time_us:{backend:?}/{via:?}"), t_start.elapsed().as_micros() as u64);
    // labels about the history as a whole
    let max_chain = h.model.clients.values().map(|m| m.chain.len()).max().unwrap_or(0);
    if max_chain >= 6 {
        st.label("hist:chain>=6");
    }
    if h.model.clients.values().any(|m| !m.chain.is_empty() && !m.base().is_nil()) {
        st.label("hist:non-nil-base");
    }
    if h.model.clients.values().any(|m| m.snaps_accepted >= 2) {
        st.label("hist:snapshot-replaced");
    }
    if h.drv.reopens > 0 {
        st.label("hist:reopened");
    }
    if h.steps.iter().any(|s| s.class == IdClass::Foreign) {
        st.label("hist:foreign-id");
    }
    st.sample(|| serde_json::json!({"backend": format!("{backend:?}"), "via": format!("{via:?}"), "case": case,
        "outcomes": h.steps.iter().map(|s| format!("{}:{}", s.op.kind(), s.outcome.class())).collect::<Vec<_>>()}));
    Ok(())
}

/// Execute a case and return one canonical line per op (for comparing runs with each other).
/// `before`/`after` are called around every op with the history state.
pub fn run_trace(
    case: &Case,
    backend: Backend,
    via: Via,
    honour_reopen: bool,
    own_only: bool,
    mut around: impl FnMut(&mut Hist, usize, &Op, bool) -> CheckResult,
) -> Result<(Vec<String>, Hist), Fail> {
    let mut h = Hist::new(case, backend, via, Oracles::default())?;
    let mut lines = vec![];
    let mut quiet = Stats::default();
    quiet.frozen = true;
    for (idx, op) in case.ops.iter().enumerate() {
        around(&mut h, idx, op, false)?;
        let n0 = h.steps.len();
        match op {
            Op::Reopen if !honour_reopen => {}
            _ => h.step(idx, op, &mut quiet)?,
        }
        let line = if h.steps.len() > n0 {
            let s = h.steps.last().unwrap();
            format!("{}:{}", s.op.kind(), h.canon(s.client, &s.outcome, own_only))
        } else {
            match op {
                Op::Reopen => "Reopen".to_string(),
                Op::AgeSnapshot { c, .. } => {
                    let cid = h.clients[*c as usize % h.clients.len()];
                    format!("AgeSnapshot:{}", h.model.client(cid).snap.is_some())
                }
                Op::NewClient { c } => {
                    let cid = h.clients[*c as usize % h.clients.len()];
                    format!("NewClient:{}", h.model.client(cid).chain.len())
                }
                _ => "?".to_string(),
            }
        };
        lines.push(line);
        around(&mut h, idx, op, true)?;
    }
    Ok((lines, h))
}

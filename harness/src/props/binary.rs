//! C17 - the server binary honours its command-line and environment configuration.
//! The real executable (built from /repo by the check wrapper) is spawned per case and spoken to
//! over loopback TCP.

use crate::case::{self, BytesSpec, Case, Cfg, GenParams, IdRef, Op};
use crate::driver::{sqlite_factory, Backend, Driver, HttpReq, HttpResp, Outcome, TempDir, Via};
use crate::engine::{self, CheckResult, Fail, Report, Stats, Tier};
use crate::hist::{Hist, Oracles};
use crate::sock::{exchange, Encoding, SockError};
use proptest::prelude::*;
use serde::{Deserialize, Serialize};
use serde_json::Value;
use std::net::{SocketAddr, TcpListener, ToSocketAddrs};
use std::path::{Path, PathBuf};
use std::process::{Child, Command, Stdio};
use std::time::{Duration, Instant};
use uuid::Uuid;

pub fn server_bin() -> Option<PathBuf> {
    let p = std::env::var_os("TCSS_SERVER_BIN").map(PathBuf::from).unwrap_or_else(|| engine::verif_root().join("harness/target/repo-bin/debug/taskchampion-sync-server"));
    if p.is_file() {
        Some(p)
    } else {
        None
    }
}

const HOSTS: [&str; 4] = ["127.0.0.1", "127.0.0.2", "[::1]", "localhost"];

#[derive(Clone, Copy, Debug, Serialize, Deserialize, PartialEq, Eq, Hash)]
pub enum Src {
    /// not given at all (default applies)
    Default,
    Flag,
    Env,
}

#[derive(Clone, Copy, Debug, Serialize, Deserialize, PartialEq, Eq, Hash)]
pub enum ListStyle {
    /// one flag per value
    Repeated,
    /// one flag, values joined by commas
    Joined,
    /// environment variable, values joined by commas
    Env,
}

#[derive(Clone, Debug, Serialize, Deserialize, PartialEq, Eq, Hash)]
pub struct BCase {
    /// indices into HOSTS (1-3 addresses)
    pub hosts: Vec<u8>,
    pub listen_style: ListStyle,
    pub data_dir_src: Src,
    /// None = no allow-list; Some(k) = the first k clients of the history plus `extra` unrelated ids
    pub allow: Option<(u8, u8)>,
    pub allow_style: ListStyle,
    pub snapshot_versions: (Src, u32),
    pub snapshot_days: (Src, i64),
    /// requests (4 clients), spoken to the listen addresses in turn
    pub ops: Vec<Op>,
    pub salt: u32,
    pub kill_restart: bool,
    /// how the data directory is named: 0 absolute path, 1 with a trailing slash, 2 relative to the
    /// working directory, 3 through a symbolic link
    #[serde(default)]
    pub dir_form: u8,
    /// with kill_restart: the restarted server gets this allow-list instead (same encoding as
    /// `allow`); None = the same list as before
    #[serde(default)]
    pub restart_allow: Option<Option<(u8, u8)>>,
    /// after the history: client 0's snapshot is re-stamped so that it turns `snapshot_days` days
    /// old two seconds later; one AddVersion at once, one four seconds later - the second one must
    /// see the age the wall clock now says (the server has been running all the while)
    #[serde(default)]
    pub cross_age: bool,
}

pub struct Proc {
    child: Child,
    pub addrs: Vec<SocketAddr>,
    /// the listen addresses it was started with
    pub listen: Vec<String>,
}

impl Proc {
    /// has the process not exited?
    pub fn alive(&mut self) -> bool {
        matches!(self.child.try_wait(), Ok(None))
    }
    /// SIGKILL, then reap
    pub fn kill9(&mut self) {
        let _ = self.child.kill();
        let _ = self.child.wait();
    }
}

impl Drop for Proc {
    fn drop(&mut self) {
        let _ = self.child.kill();
        let _ = self.child.wait();
    }
}

/// A port on `host` that is free now, for a server about to be started there.  Not an ephemeral
/// one (`:0`): the system hands the same ephemeral numbers out again within moments - to the
/// probes of the other worker processes and to the harness's own outgoing connections - and the
/// server would then find its port taken.  Instead every process walks its own slice of
/// 10000..32016 (below the ephemeral range), probing each number by binding it.
pub fn free_port(host: &str) -> Option<u16> {
    static NEXT: std::sync::atomic::AtomicU32 = std::sync::atomic::AtomicU32::new(0);
    // can the address be bound at all?
    drop(TcpListener::bind(format!("{host}:0")).ok()?);
    let slot = std::process::id() % 64;
    for _ in 0..344 {
        let n = NEXT.fetch_add(1, std::sync::atomic::Ordering::SeqCst);
        let p = (10_000 + slot * 344 + n % 344) as u16;
        if TcpListener::bind(format!("{host}:{p}")).is_ok() {
            return Some(p);
        }
    }
    // the slice is exhausted (something else lives there): fall back to an ephemeral number
    let l = TcpListener::bind(format!("{host}:0")).ok()?;
    l.local_addr().ok().map(|a| a.port())
}

pub struct Launch {
    pub args: Vec<String>,
    pub env: Vec<(String, String)>,
    /// the data directory, kept apart because its name need not be text: (by environment?, name)
    pub dir_arg: Option<(bool, std::ffi::OsString)>,
    pub connect: Vec<SocketAddr>,
    pub cwd: Option<PathBuf>,
    /// the listen addresses as given to the server (host:port texts)
    pub listen: Vec<String>,
}

fn plan_launch(bc: &BCase, dir: &Path, clients: &[Uuid]) -> Option<Launch> {
    plan_launch_on(bc, dir, clients, None)
}

/// `reuse`: the listen addresses (host:port texts) of an earlier launch of the same case, to be
/// used again as they are - an operator restarts a server with the configuration it had.
fn plan_launch_on(bc: &BCase, dir: &Path, clients: &[Uuid], reuse: Option<&[String]>) -> Option<Launch> {
    let mut args = vec![];
    let mut env = vec![];
    let mut listen = vec![];
    let mut connect = vec![];
    for (hi, h) in bc.hosts.iter().enumerate() {
        if let Some(r) = reuse {
            let l = r.get(hi)?.clone();
            let (host, port) = l.rsplit_once(':')?;
            let c = if host == "localhost" { format!("127.0.0.1:{port}") } else { l.clone() };
            connect.push(c.to_socket_addrs().ok()?.next()?);
            listen.push(l);
            continue;
        }
        let mut host = HOSTS[*h as usize % HOSTS.len()];
        // an address this sandbox cannot bind says nothing about the server: use 127.0.0.1 instead
        if free_port(host).is_none() {
            host = "127.0.0.1";
        }
        // one case in three: the same port number on every address (distinct sockets all the
        // same: 127.0.0.1:P, 127.0.0.2:P and [::1]:P); `localhost` keeps a port of its own
        // because it names one of the others
        let shared: Option<u16> = if bc.salt % 3 == 0 && host != "localhost" {
            listen.iter().filter(|l: &&String| !l.starts_with("localhost")).filter_map(|l| l.rsplit(':').next().and_then(|p| p.parse::<u16>().ok())).next().filter(|p| !listen.contains(&format!("{host}:{p}")) && TcpListener::bind(format!("{host}:{p}")).is_ok())
        } else {
            None
        };
        let port = match shared {
            Some(p) => p,
            None => {
                // a number no earlier address of this launch uses (the probe sockets are closed
                // again, so the system may hand the same number out twice - and `localhost` names
                // one of the other addresses)
                let mut p = free_port(host)?;
                for _ in 0..20 {
                    if !listen.iter().any(|l: &String| l.rsplit(':').next() == Some(p.to_string().as_str())) {
                        break;
                    }
                    p = free_port(host)?;
                }
                if listen.iter().any(|l: &String| l.rsplit(':').next() == Some(p.to_string().as_str())) {
                    return None;
                }
                p
            }
        };
        listen.push(format!("{host}:{port}"));
        let c = if host == "localhost" { format!("127.0.0.1:{port}") } else { format!("{host}:{port}") };
        connect.push(c.to_socket_addrs().ok()?.next()?);
    }
    let listen_out = listen.clone();
    match bc.listen_style {
        ListStyle::Repeated => {
            for (i, l) in listen.iter().enumerate() {
                args.push(if i % 2 == 0 { "--listen".to_string() } else { "-l".to_string() });
                args.push(l.clone());
            }
        }
        ListStyle::Joined => {
            args.push("--listen".into());
            args.push(listen.join(","));
        }
        ListStyle::Env => env.push(("LISTEN".to_string(), listen.join(","))),
    }
    // the same directory, named in different ways
    let mut cwd = None;
    let named: std::ffi::OsString = match bc.dir_form % 4 {
        1 => {
            let mut o = dir.as_os_str().to_owned();
            o.push("/");
            o
        }
        2 => {
            cwd = dir.parent().map(|p| p.to_path_buf());
            if let Some(c) = &cwd {
                let _ = std::fs::create_dir_all(c);
            }
            let mut o = std::ffi::OsString::from("./");
            o.push(dir.file_name().unwrap_or_default());
            o
        }
        3 => {
            let mut ln = dir.file_name().unwrap_or_default().to_owned();
            ln.push("-link");
            let link = dir.with_file_name(ln);
            let _ = std::fs::create_dir_all(dir);
            if !link.exists() {
                let _ = std::os::unix::fs::symlink(dir, &link);
            }
            link.into_os_string()
        }
        _ => dir.as_os_str().to_owned(),
    };
    let dir_arg = Some((bc.data_dir_src == Src::Env, named));
    if let Some((k, extra)) = bc.allow {
        let mut ids: Vec<String> = clients.iter().take(k as usize).map(|c| c.to_string()).collect();
        for e in 0..extra {
            ids.push(case::fresh_uuid(7000 + e as u32).to_string());
        }
        if ids.is_empty() {
            ids.push(case::fresh_uuid(7999).to_string());
        }
        // every text form the option's parser takes names the same id
        let ids: Vec<String> = ids
            .into_iter()
            .enumerate()
            .map(|(i, id)| match (bc.salt as usize / 3 + i) % 6 {
                1 => id.to_uppercase(),
                2 => id.replace('-', ""),
                3 => format!("{{{id}}}"),
                4 => format!("urn:uuid:{id}"),
                _ => id,
            })
            .collect();
        match bc.allow_style {
            ListStyle::Repeated => {
                for (i, id) in ids.iter().enumerate() {
                    args.push(if i % 2 == 0 { "--allow-client-id".to_string() } else { "-C".to_string() });
                    args.push(id.clone());
                }
            }
            ListStyle::Joined => {
                args.push("--allow-client-id".into());
                args.push(ids.join(","));
            }
            ListStyle::Env => env.push(("CLIENT_ID".into(), ids.join(","))),
        }
        // an option given on the command line is not also taken from the environment: a
        // CLIENT_ID variable left in the environment (naming the history's *other* clients) next
        // to the flags changes nothing
        if bc.allow_style != ListStyle::Env && bc.salt % 4 == 1 {
            let others: Vec<String> = clients.iter().skip(k as usize).map(|c| c.to_string()).collect();
            if !others.is_empty() {
                env.push(("CLIENT_ID".into(), others.join(",")));
            }
        }
    }
    match bc.snapshot_versions.0 {
        Src::Default => {}
        Src::Flag => {
            args.push("--snapshot-versions".into());
            args.push(bc.snapshot_versions.1.to_string());
            if bc.salt % 4 == 2 {
                // (likewise: the flag is what the operator configured)
                env.push(("SNAPSHOT_VERSIONS".into(), (bc.snapshot_versions.1 % 1000 + 3).to_string()));
            }
        }
        Src::Env => env.push(("SNAPSHOT_VERSIONS".into(), bc.snapshot_versions.1.to_string())),
    }
    match bc.snapshot_days.0 {
        Src::Default => {}
        Src::Flag => {
            args.push("--snapshot-days".into());
            args.push(bc.snapshot_days.1.to_string());
            if bc.salt % 4 == 3 {
                env.push(("SNAPSHOT_DAYS".into(), (bc.snapshot_days.1 % 1000 + 2).to_string()));
            }
        }
        Src::Env => env.push(("SNAPSHOT_DAYS".into(), bc.snapshot_days.1.to_string())),
    }
    Some(Launch { args, env, connect, cwd, dir_arg, listen: listen_out })
}

pub fn spawn(bin: &Path, l: &Launch) -> Result<Proc, String> {
    let mut cmd = Command::new(bin);
    cmd.args(&l.args).env_clear().stdin(Stdio::null()).stdout(Stdio::null()).stderr(Stdio::null());
    if let Some(c) = &l.cwd {
        cmd.current_dir(c);
    }
    for (k, v) in &l.env {
        cmd.env(k, v);
    }
    match &l.dir_arg {
        Some((true, d)) => {
            cmd.env("DATA_DIR", d);
        }
        Some((false, d)) => {
            cmd.arg("--data-dir").arg(d);
        }
        None => {}
    }
    if !l.env.iter().any(|(k, _)| k == "TZ") {
        // ... and in whatever time zone the host happens to be
        let port = l.connect.first().map(|a| a.port()).unwrap_or(0);
        cmd.env("TZ", ["UTC0", "LINT-14", "AOE12", "IST-5:30", "Pacific/Kiritimati"][(port / 4 % 5) as usize]);
    }
    if !l.env.iter().any(|(k, _)| k == "RUST_LOG") {
        // operators run with logging on; which level must not matter (output goes nowhere)
        let port = l.connect.first().map(|a| a.port()).unwrap_or(0);
        if let Some(level) = [None, Some("info"), Some("debug"), Some("warn")][(port % 4) as usize] {
            cmd.env("RUST_LOG", level);
        }
    }
    let mut child = cmd.spawn().map_err(|e| format!("spawn: {e}"))?;
    let t0 = Instant::now();
    // wait until every address accepts connections
    let mut ready = vec![false; l.connect.len()];
    loop {
        if let Ok(Some(st)) = child.try_wait() {
            return Err(format!("the server exited at once ({st}) with arguments {:?} and environment {:?}", l.args, l.env));
        }
        for (i, a) in l.connect.iter().enumerate() {
            if !ready[i] && std::net::TcpStream::connect_timeout(a, Duration::from_millis(200)).is_ok() {
                ready[i] = true;
            }
        }
        if ready.iter().all(|r| *r) {
            return Ok(Proc { child, addrs: l.connect.clone(), listen: l.listen.clone() });
        }
        if t0.elapsed() > Duration::from_secs(40) {
            let _ = child.kill();
            let _ = child.wait();
            return Err(format!("not all listen addresses accept connections after 40 s: {:?} ready {:?}; arguments {:?} environment {:?}", l.connect, ready, l.args, l.env));
        }
        std::thread::sleep(Duration::from_millis(15));
    }
}

fn v<T>(m: String) -> Result<T, Fail> {
    Err(Fail::Violation(m))
}

/// Does every one of the addresses refuse connections (so that no other server has taken it)?
fn nobody_listens(listen: &[String]) -> bool {
    listen.iter().all(|a| {
        let a = if let Some(p) = a.strip_prefix("localhost:") { format!("127.0.0.1:{p}") } else { a.clone() };
        match a.to_socket_addrs().ok().and_then(|mut i| i.next()) {
            Some(sa) => matches!(std::net::TcpStream::connect_timeout(&sa, Duration::from_millis(500)), Err(e) if e.kind() == std::io::ErrorKind::ConnectionRefused),
            None => false,
        }
    })
}

/// Start the server again with the listen addresses it had before it was killed (an operator
/// restarts a service with the configuration it has).  If it does not come up although nobody
/// else listens on any of those addresses, that is the server's doing; if somebody else has
/// taken one meanwhile, other ports are used.
fn start_again(bin: &Path, bc: &BCase, dir: &Path, clients: &[Uuid], listen: &[String], st: &mut Stats) -> Result<Proc, Fail> {
    if listen.len() == bc.hosts.len() {
        if let Some(l) = plan_launch_on(bc, dir, clients, Some(listen)) {
            match spawn(bin, &l) {
                Ok(p) => {
                    st.label("c17:restarted-on-the-same-listen-addresses");
                    return Ok(p);
                }
                Err(e) => {
                    if nobody_listens(listen) && bc.restart_allow.is_none() {
                        return v(format!("after being killed, the server does not come up again with the listen addresses it had ({listen:?}; nobody else listens there - connections are refused): {e}"));
                    }
                    st.label("c17:listen-addresses-taken-meanwhile");
                }
            }
        }
    }
    start(bin, bc, dir, clients)
}

fn start(bin: &Path, bc: &BCase, dir: &Path, clients: &[Uuid]) -> Result<Proc, Fail> {
    let mut last = String::new();
    for _ in 0..4 {
        let Some(l) = plan_launch(bc, dir, clients) else {
            return Err(Fail::Inconclusive("no free loopback port".into()));
        };
        match spawn(bin, &l) {
            Ok(p) => return Ok(p),
            Err(e) => {
                // most likely: the port was taken between probing and binding; try other ports
                last = e;
            }
        }
    }
    // a server that never comes up with a valid configuration is a finding, but an environment
    // without the loopback addresses is not: tell them apart by trying a plain 127.0.0.1 launch
    let plain = BCase { hosts: vec![0], listen_style: ListStyle::Repeated, ..bc.clone() };
    if plain != *bc {
        if let Some(l) = plan_launch(&plain, dir, clients) {
            if spawn(bin, &l).is_ok() {
                return v(format!("the server does not come up with this configuration, but does with a single 127.0.0.1 address: {last}"));
            }
        }
    }
    // ... and, failing that, the plainest launch there is: one address, everything by flag, the
    // data directory a fresh one named plainly next to the configured one
    let plainest = BCase { hosts: vec![0], listen_style: ListStyle::Repeated, data_dir_src: Src::Flag, allow_style: ListStyle::Repeated, dir_form: 0, ..bc.clone() };
    let probe_dir = dir.with_file_name("plain-probe");
    if let Some(l) = plan_launch(&plainest, &probe_dir, clients) {
        match spawn(bin, &l) {
            Ok(_) => return v(format!("the server does not come up with this configuration (data directory {:?}, named in form {}), but does with a plainly named fresh directory and a single 127.0.0.1 address: {last}", dir, bc.dir_form % 4)),
            Err(e) => {
                // not even that - on an address nobody listens on and a fresh directory it can write
                let free = nobody_listens(&l.listen);
                let writable = std::fs::create_dir_all(&probe_dir).is_ok() && std::fs::write(probe_dir.join("probe"), b"x").is_ok();
                if free && writable && e.contains("exited at once") {
                    return v(format!("the server does not come up at all, not even with one 127.0.0.1 address on which nobody listens ({:?}: connections are refused) and a fresh writable directory: {e}", l.listen));
                }
            }
        }
    }
    Err(Fail::Inconclusive(format!("cannot start the server: {last}")))
}

fn ext_driver(dir: &Path, cfg: &Cfg, addrs: Vec<SocketAddr>) -> Result<Driver, Fail> {
    ext_driver_ka(dir, cfg, addrs, false)
}

/// `keep_alive`: all requests (whoever the client) travel over one persistent connection per
/// listen address, as behind a connection-pooling proxy.
fn ext_driver_ka(dir: &Path, cfg: &Cfg, addrs: Vec<SocketAddr>, keep_alive: bool) -> Result<Driver, Fail> {
    let mut drv = Driver::with_factory(Backend::Sqlite, Via::Http, cfg, None, sqlite_factory(dir.to_path_buf()), None).map_err(|e| Fail::Violation(format!("opening the data directory next to the server: {e:#}")))?;
    drv.db_path = Some(dir.to_path_buf());
    let mut turn = 0usize;
    let mut conns: Vec<crate::sock::KeepAlive> = addrs.iter().map(|a| crate::sock::KeepAlive::new(*a)).collect();
    drv.ext = Some(Box::new(move |r: &HttpReq| -> HttpResp {
        let a = addrs[turn % addrs.len()];
        turn += 1;
        if keep_alive {
            let k = (turn - 1) % conns.len();
            return match conns[k].call(r, Duration::from_secs(120)) {
                Ok(resp) => resp,
                Err(SockError::NoResponse(m)) | Err(SockError::Io(m)) => HttpResp { status: 0, crashed: Some(format!("no response from {a} on a persistent connection: {m}")), ..Default::default() },
            };
        }
        match exchange(a, r, if turn % 3 == 0 { Encoding::Chunked } else { Encoding::ContentLength }, &[], Duration::from_secs(120)) {
            Ok(resp) => resp,
            Err(SockError::NoResponse(m)) | Err(SockError::Io(m)) => HttpResp { status: 0, crashed: Some(format!("no response from {a}: {m}")), ..Default::default() },
        }
    }));
    Ok(drv)
}

pub fn check(bc: &BCase, st: &mut Stats) -> CheckResult {
    let Some(bin) = server_bin() else {
        return Err(Fail::Inconclusive("the server executable has not been built (run ./check --build)".into()));
    };
    let dir = TempDir::new("c17");
    // the directory's own name: plain, with a blank, non-ASCII, characters that mean something in
    // URLs, or two levels that do not exist yet
    let dname = ["data", "data", "da ta", "d\u{e4}-ta", "a%20b", "q?x=1", "h#1", "nested/two/levels", "(not UTF-8)"][(bc.salt / 2 % 9) as usize];
    let dpath = if dname == "(not UTF-8)" {
        // a name in some legacy encoding: bytes that are not valid UTF-8 (Latin-1 e-acute)
        use std::os::unix::ffi::OsStrExt;
        dir.path().join(std::ffi::OsStr::from_bytes(b"donn\xe9es"))
    } else {
        dir.path().join(dname)
    };
    st.label(&format!("c17:data-dir-name:{dname}"));
    let cfg = Cfg {
        snapshot_versions: if bc.snapshot_versions.0 == Src::Default { 100 } else { bc.snapshot_versions.1 },
        snapshot_days: if bc.snapshot_days.0 == Src::Default { 14 } else { bc.snapshot_days.1 },
    };
    let hc = Case { cfg: cfg.clone(), salt: bc.salt, nclients: 4, ops: bc.ops.clone() };
    let clients: Vec<Uuid> = (0..4).map(|i| case::client_uuid(bc.salt, i)).collect();
    let listed = |c: Uuid| match bc.allow {
        None => true,
        Some((k, _)) => clients.iter().take(k as usize).any(|x| *x == c),
    };
    let what = format!("configuration {bc:?}");
    let proc = start(&bin, bc, &dpath, &clients)?;
    st.check();
    // the database file lives in the given directory
    if !dpath.join("taskchampion-sync-server.sqlite3").is_file() {
        return v(format!("{what}: no database file in the configured data directory"));
    }
    // half of the cases speak over persistent connections shared by all clients
    let keep_alive = bc.salt % 2 == 0;
    if keep_alive {
        st.label("c17:persistent-connections");
    }
    let drv = ext_driver_ka(&dpath, &cfg, proc.addrs.clone(), keep_alive)?;
    let mut or = Oracles::default();
    or.c02 = true;
    or.c12 = true;
    let mut h = Hist::with_driver(&hc, drv, or);
    let mut quiet = Stats::default();
    quiet.frozen = true;
    let mut refused = 0;
    let mut served = 0;
    // with a kill-and-restart, the last third of the requests is spoken to the restarted server
    let cut = if bc.kill_restart { bc.ops.len() - bc.ops.len() / 3 } else { bc.ops.len() };
    for (i, op) in bc.ops.iter().enumerate().take(cut) {
        if matches!(op, Op::Reopen) {
            continue;
        }
        let c = h.clients[op.client().unwrap() as usize % 4];
        if listed(c) {
            h.step(i, op, &mut quiet).map_err(|f| match f {
                Fail::Violation(m) => Fail::Violation(format!("{what}: request {i} ({op:?}) over TCP: {m}")),
                o => o,
            })?;
            served += 1;
        } else {
            if matches!(op, Op::AgeSnapshot { .. }) {
                continue;
            }
            // enforced exactly: 403 for every other id
            let req = match op {
                Op::AddVersion { parent, data, .. } => crate::driver::req_add_version(c, h.resolve(parent), vec![bytes::Bytes::from(data.expand())]),
                Op::GetChild { parent, .. } => crate::driver::req_get_child(c, h.resolve(parent)),
                Op::AddSnapshot { version, data, .. } => crate::driver::req_add_snapshot(c, h.resolve(version), vec![bytes::Bytes::from(data.expand())]),
                _ => crate::driver::req_get_snapshot(c),
            };
            let r = h.drv.http_call(req.clone());
            if r.status != 403 {
                return v(format!("{what}: {} {} by a client that is not on the configured allow-list was answered {} ({:?})", req.method, req.path, r.status, r.crashed));
            }
            refused += 1;
        }
    }
    if bc.cross_age && cfg.snapshot_days >= 1 && cfg.snapshot_days < 10_000 {
        use taskchampion_sync_server_core::Snapshot;
        let c = h.clients[0];
        let m = h.model.client(c);
        if let Some(sn) = &m.snap {
            let stamp = chrono::Utc::now() - chrono::Duration::seconds(cfg.snapshot_days * 86400 - 2);
            (|| -> anyhow::Result<()> {
                let mut t = h.drv.storage.txn(c)?;
                t.set_snapshot(Snapshot { version_id: sn.version, timestamp: stamp, versions_since: sn.since as u32 }, sn.data.to_vec())?;
                t.commit()
            })()
            .map_err(|e| Fail::Inconclusive(format!("re-stamping the snapshot: {e:#}")))?;
            let allowed_at = |days: i64, since: u64| crate::model::allowed_urgency(&cfg, Some((since, days)));
            let first = h.drv.add_version(c, m.latest(), b"just before the snapshot turns old enough");
            let Outcome::Accepted { id: v_a, urgency: u_a } = first else { return v(format!("{what}: AddVersion before the crossing: {}", first.short())) };
            let mut ok_a = allowed_at(cfg.snapshot_days - 1, sn.since);
            ok_a.extend(allowed_at(cfg.snapshot_days, sn.since));
            if !ok_a.contains(&u_a) {
                return v(format!("{what}: a snapshot {} days old minus two seconds, {} versions since: AddVersion reported {u_a:?}, allowed {ok_a:?}", cfg.snapshot_days, sn.since));
            }
            std::thread::sleep(Duration::from_secs(4));
            let second = h.drv.add_version(c, v_a, b"after it did");
            let Outcome::Accepted { id: v_b, urgency: u_b } = second else { return v(format!("{what}: AddVersion after the crossing: {}", second.short())) };
            let ok_b = allowed_at(cfg.snapshot_days, sn.since + 1);
            if !ok_b.contains(&u_b) {
                return v(format!("{what}: the stored snapshot turned {} days old while the server was running ({} versions since): AddVersion then reported {u_b:?}, the configured targets demand {ok_b:?}", cfg.snapshot_days, sn.since + 1));
            }
            let data_a: std::sync::Arc<Vec<u8>> = std::sync::Arc::new(b"just before the snapshot turns old enough".to_vec());
            let data_b: std::sync::Arc<Vec<u8>> = std::sync::Arc::new(b"after it did".to_vec());
            h.know(v_a);
            h.know(v_b);
            let lat = m.latest();
            h.model.client_mut(c).apply_accept(v_a, lat, data_a);
            h.model.client_mut(c).apply_accept(v_b, v_a, data_b);
            if let Some(s2) = &mut h.model.client_mut(c).snap {
                s2.days = cfg.snapshot_days;
            }
            st.label("c17:snapshot-turns-old-enough-while-the-server-runs");
        }
    }
    // every listen address serves the same state
    for a in &proc.addrs {
        let r = exchange(*a, &HttpReq { method: "GET".into(), path: "/".into(), headers: vec![], chunks: vec![], stalls: vec![] }, Encoding::ContentLength, &[], Duration::from_secs(60));
        match r {
            Ok(r) if r.status == 200 => {}
            o => return v(format!("{what}: listen address {a} does not serve: {:?}", o.map(|r| r.status).map_err(|e| format!("{e:?}")))),
        }
    }
    // kill and restart on the same directory: the same history is served
    let model = h.model.clone();
    let ids = h.ids.clone();
    // (with kill_restart the harness's connections - persistent ones in half of the cases - stay
    // open until the server has been killed, as a client's would)
    let mut still_connected = Some(h);
    if !bc.kill_restart {
        still_connected = None;
    }
    let mut proc = proc;
    if bc.kill_restart {
        // SIGKILL; in half of the cases the restart happens while the killed process has not been
        // reaped yet (its pid still exists, as it would under a slow supervisor)
        let _ = proc.child.kill();
        let unreaped = bc.salt % 4 >= 2;
        if !unreaped {
            let _ = proc.child.wait();
        } else {
            // make sure the signal has been delivered (the listening sockets are closed)
            let t0 = Instant::now();
            while t0.elapsed() < Duration::from_secs(5) && proc.addrs.iter().any(|a| std::net::TcpStream::connect_timeout(a, Duration::from_millis(100)).is_ok()) {
                std::thread::sleep(Duration::from_millis(10));
            }
            st.label("c17:restart-before-the-killed-process-is-reaped");
        }
        drop(still_connected.take());
        let listen_before = proc.listen.clone();
        let _old = proc;
        // the operator may restart with another allow-list: the restarted server enforces
        // exactly the new one, also against clients that synced under the old one
        let mut bc2 = bc.clone();
        if let Some(a) = bc.restart_allow {
            bc2.allow = a;
            st.label("c17:restart-with-another-allow-list");
        }
        let bc = &bc2;
        let listed = |c: Uuid| match bc.allow {
            None => true,
            Some((k, _)) => clients.iter().take(k as usize).any(|x| *x == c),
        };
        // the same binary came up with this very configuration moments ago: not coming up again
        // on the directory it was killed on is the server's doing, not the environment's
        let proc2 = start_again(&bin, bc, &dpath, &clients, &listen_before, st).map_err(|f| match f {
            Fail::Violation(m) => Fail::Violation(format!("{what}: {m}")),
            Fail::Inconclusive(m) if bc.restart_allow.is_none() => Fail::Violation(format!("{what}: after being killed{}, the server does not come up again on the same data directory: {m}", if unreaped { " (and before the killed process was reaped)" } else { "" })),
            o => o,
        })?;
        let drv2 = ext_driver(&dpath, &cfg, proc2.addrs.clone())?;
        let mut or2 = Oracles::default();
        or2.c01 = true;
        or2.c11 = true;
        let mut h2 = Hist::with_driver(&hc, drv2, or2);
        h2.model = model.clone();
        for id in &ids {
            h2.know(*id);
        }
        for c in clients.iter().copied().filter(|c| listed(*c)) {
            h2.c01_walk(5000, c, &mut quiet).map_err(|f| match f {
                Fail::Violation(m) => Fail::Violation(format!("{what}: after killing the server and restarting it on the same data directory: {m}")),
                o => o,
            })?;
            h2.c11_walk(5001, c, &mut quiet).map_err(|f| match f {
                Fail::Violation(m) => Fail::Violation(format!("{what}: after killing the server and restarting it on the same data directory: {m}")),
                o => o,
            })?;
        }
        for c in clients.iter().copied().filter(|c| !listed(*c)) {
            let m = model.client(c);
            let body = vec![bytes::Bytes::from_static(b"after-restart")];
            for req in [crate::driver::req_get_child(c, m.base()), crate::driver::req_get_snapshot(c), crate::driver::req_add_version(c, m.latest(), body.clone()), crate::driver::req_add_snapshot(c, m.latest(), body.clone())] {
                let r = h2.drv.http_call(req.clone());
                if r.status != 403 {
                    return v(format!("{what}: after a restart with allow-list {:?}, {} {} by client {c} (not on that list; {} versions stored from before) was answered {} ({:?})", bc.allow, req.method, req.path, m.chain.len(), r.status, r.crashed));
                }
            }
        }
        // and the history continues on the restarted server as if nothing had happened
        let mut or3 = Oracles::default();
        or3.c02 = true;
        or3.c12 = true;
        or3.c11 = true;
        h2.or = or3;
        for (i, op) in bc.ops.iter().enumerate().skip(cut) {
            if matches!(op, Op::Reopen) {
                continue;
            }
            let c = h2.clients[op.client().unwrap() as usize % 4];
            if !listed(c) {
                continue;
            }
            h2.step(i, op, &mut quiet).map_err(|f| match f {
                Fail::Violation(m) => Fail::Violation(format!("{what}: after killing the server and restarting it on the same data directory, request {i} ({op:?}): {m}")),
                o => o,
            })?;
        }
        for c in clients.iter().copied().filter(|c| listed(*c)) {
            h2.c01_walk(6000, c, &mut quiet).map_err(|f| match f {
                Fail::Violation(m) => Fail::Violation(format!("{what}: after a restart and further requests: {m}")),
                o => o,
            })?;
        }
        let model = h2.model.clone();
        drop(h2);
        drop(proc2);
        // a start on a different directory serves nothing of it
        let other = dir.path().join("other");
        let proc3 = start(&bin, bc, &other, &clients)?;
        let mut drv3 = ext_driver(&other, &cfg, proc3.addrs.clone())?;
        for c in clients.iter().copied().filter(|c| listed(*c)) {
            let m = model.client(c);
            match drv3.get_child(c, m.base()) {
                Outcome::NotFound | Outcome::NoSuchClient => {}
                o => return v(format!("{what}: a server started on a different, empty data directory answers {} for client {c}", o.short())),
            }
        }
        st.label("c17:kill-restart");
    } else {
        let _ = proc.child.kill();
    }
    let non_default = [bc.hosts.len() > 1 || bc.hosts[0] != 0, bc.allow.is_some(), bc.snapshot_versions.0 != Src::Default, bc.snapshot_days.0 != Src::Default].iter().filter(|x| **x).count();
    let uses_env = bc.listen_style == ListStyle::Env || bc.data_dir_src == Src::Env || (bc.allow.is_some() && bc.allow_style == ListStyle::Env) || bc.snapshot_versions.0 == Src::Env || bc.snapshot_days.0 == Src::Env;
    let uses_flag = bc.listen_style != ListStyle::Env || bc.data_dir_src != Src::Env;
    st.label(&format!("c17:addresses:{}", bc.hosts.len()));
    st.label(&format!("c17:allow:{:?}", bc.allow.map(|a| a.0)));
    st.label_n("c17:requests-served", served);
    st.label_n("c17:requests-refused-403", refused);
    if non_default >= 2 && uses_env && uses_flag {
        st.nontrivial(&("c17", bc.hosts.clone(), bc.listen_style, bc.data_dir_src, bc.allow, bc.allow_style, bc.snapshot_versions, bc.snapshot_days));
    }
    st.sample(|| serde_json::json!({"case": bc}));
    Ok(())
}

fn list_style() -> impl Strategy<Value = ListStyle> {
    prop_oneof![Just(ListStyle::Repeated), Just(ListStyle::Joined), Just(ListStyle::Env)]
}

fn src() -> impl Strategy<Value = Src> {
    prop_oneof![1 => Just(Src::Default), 2 => Just(Src::Flag), 2 => Just(Src::Env)]
}

fn bcase(max_ops: usize) -> BoxedStrategy<BCase> {
    let mut p = GenParams::default();
    p.max_clients = 4;
    p.max_ops = max_ops;
    p.min_ops = 4;
    p.w = [60, 8, 20, 6, 0, 8];
    p.av_latest_pct = 90;
    p.nonnil_base_pct = 20;
    (
        proptest::collection::vec(0u8..4, 1..=3),
        list_style(),
        prop_oneof![Just(Src::Flag), Just(Src::Env)],
        proptest::option::weighted(0.6, (0u8..4, 0u8..3)),
        list_style(),
        (src(), prop_oneof![4 => 0u32..7, 1 => Just(4_000_000_000u32)]),
        (src(), prop_oneof![4 => 0i64..4, 1 => Just(i64::MAX / 2)]),
        proptest::collection::vec(case::op(4, &p), 4..=max_ops),
        any::<u32>(),
        (prop::bool::weighted(0.5), prop_oneof![3 => Just(0u8), 1 => Just(1u8), 1 => Just(2u8), 1 => Just(3u8)], proptest::option::weighted(0.4, proptest::option::weighted(0.8, (0u8..4, 0u8..3)))),
    )
        .prop_map(|(mut hosts, listen_style, data_dir_src, allow, allow_style, snapshot_versions, snapshot_days, ops, salt, (kill_restart, dir_form, restart_allow))| {
            hosts.dedup();
            let restart_allow = if kill_restart && restart_allow != Some(allow) { restart_allow } else { None };
            BCase { hosts, listen_style, data_dir_src, allow, allow_style, snapshot_versions, snapshot_days, ops, salt: salt & 0xFFFF, kill_restart, dir_form, restart_allow, cross_age: false }
        })
        .boxed()
}

pub fn run(tier: Tier, seed: u64) -> Report {
    let mut rep = Report::new(
        "C17",
        tier,
        seed,
        "exploration",
        "generated configurations: 1-3 listen addresses from {127.0.0.1, 127.0.0.2, [::1], localhost} (repeated flags, comma-joined, or LISTEN), data directory (flag or DATA_DIR), allow-list (none / first k clients plus unrelated ids; repeated, comma-joined or CLIENT_ID), snapshot-versions (default, 0..6, large) and snapshot-days (default, 0..3, large) each by flag or environment. The real executable built from /repo is spawned; a generated history over 4 clients is spoken over TCP to the listen addresses in turn (Content-Length and chunked). Oracle: every address answers; listed clients' requests behave per the reference model configured with the generated targets (urgency bands reveal both targets; snapshot age installed by rewriting the stored time through a second SQLite connection); a constructed grid crosses every band of both targets at once; unlisted ids get exactly 403; the database file is in the given directory; after SIGKILL and restart on the same directory the chains and snapshots are served unchanged, and a start on another directory serves nothing. Non-trivial: differs from the defaults in >=2 dimensions and mixes flag and environment sources; distinct by configuration tuple.",
    );
    rep.assume("listen addresses are loopback only; a spawn that fails is retried on other ports, and counts as inconclusive (not a violation) unless a plain 127.0.0.1 launch of the same configuration works");
    if server_bin().is_none() {
        rep.inconclusive.push("the server executable has not been built (./check builds it)".into());
        return rep;
    }
    let r = engine::replay_dir::<BCase, _>("C17", "binary", check);
    rep.absorb("replay-tier", r);
    if rep.failed() {
        return rep;
    }
    // both snapshot targets at once: for each configured (versions, days) pair, a snapshot of each
    // age class (below the target, at it, at one and a half times it, far beyond) followed by a
    // run of versions that crosses every band of the versions target
    let mut grid = vec![];
    for (k, (vs, ds)) in [(4u32, 4i64), (3, 5), (6, 2), (2, 7)].into_iter().enumerate() {
        for (j, days) in [0, ds - 1, ds, ds + ds / 2 - 1, ds + ds / 2, ds + (ds + 1) / 2, 3 * ds].into_iter().enumerate() {
            for (sv, sd) in [(Src::Flag, Src::Env), (Src::Env, Src::Flag)] {
                if tier == Tier::Quick && (k + j) % 2 == 1 && sv == Src::Env {
                    continue;
                }
                let d = |seed: u32| BytesSpec { len: 4 + seed % 3, class: 2, seed };
                let mut ops = vec![Op::AddVersion { c: 0, parent: IdRef::Nil, data: d(1) }, Op::AddSnapshot { c: 0, version: IdRef::Latest(0), data: d(2) }, Op::AgeSnapshot { c: 0, days: days.max(0) as u16 }];
                for i in 0..(2 * vs + 2) {
                    ops.push(Op::AddVersion { c: 0, parent: IdRef::Latest(0), data: d(10 + i) });
                }
                grid.push(BCase { hosts: vec![0], listen_style: ListStyle::Repeated, data_dir_src: Src::Flag, allow: None, allow_style: ListStyle::Repeated, snapshot_versions: (sv, vs), snapshot_days: (sd, ds), ops, salt: 2 * (k as u32 * 16 + j as u32) + 1, kill_restart: false, dir_form: 0, restart_allow: None, cross_age: false });
            }
        }
    }
    // the snapshot crosses its age target while the server is running (flag and environment)
    for (sd, src) in [(2i64, Src::Flag), (3, Src::Env)] {
        let d = |seed: u32| BytesSpec { len: 4 + seed % 3, class: 2, seed };
        let ops = vec![Op::AddVersion { c: 0, parent: IdRef::Nil, data: d(1) }, Op::AddSnapshot { c: 0, version: IdRef::Latest(0), data: d(2) }, Op::AddVersion { c: 0, parent: IdRef::Latest(0), data: d(3) }];
        grid.push(BCase { hosts: vec![0], listen_style: ListStyle::Repeated, data_dir_src: Src::Flag, allow: None, allow_style: ListStyle::Repeated, snapshot_versions: (Src::Default, 100), snapshot_days: (src, sd), ops, salt: 7, kill_restart: sd == 3, dir_form: 0, restart_allow: None, cross_age: true });
    }
    let mut r = engine::enumerate_n("C17", "binary", 8, grid, check);
    r.exhaustive = false;
    rep.absorb("both-targets-grid", r);
    if rep.failed() {
        return rep;
    }
    let max = tier.pick(14, 30);
    let r = engine::explore("C17", "binary", seed, tier.pick(192, 3000), || bcase(max), check);
    rep.absorb("configurations", r);
    rep
}

pub fn replay(kind: &str, case_json: &Value, st: &mut Stats) -> CheckResult {
    match kind {
        "binary" => check(&serde_json::from_value(case_json.clone()).map_err(|e| Fail::Inconclusive(format!("bad replay file: {e}")))?, st),
        _ => Err(Fail::Inconclusive(format!("unknown replay kind {kind}"))),
    }
}

#[allow(dead_code)]
fn _u(_: IdRef, _: BytesSpec) {}

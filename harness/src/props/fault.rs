//! C05 - a storage failure yields an error response and no partial effect.
//! Trait-level faults through the `Instrumented` wrapper (precise semantics); file-level faults
//! through the VFS shim live in props/crash.rs next to the crash machinery.

use crate::case::{self, BytesSpec, Case, GenParams, IdRef, Op};
use crate::driver::{hash_bytes, sqlite_factory, Backend, Driver, Outcome, TempDir, Via};
use crate::engine::{self, CheckResult, Fail, Report, Stats, Tier};
use crate::hist::{Hist, Oracles};
use crate::wrap::{self, Call, Fault};
use proptest::prelude::*;
use serde::{Deserialize, Serialize};
use serde_json::Value;
use std::path::Path;
use std::sync::{Arc, Mutex};
use taskchampion_sync_server_core::Storage;
use uuid::Uuid;

/// The protocol-visible state of one client with version ids abstracted to chain positions, so
/// that two runs (which draw different random ids) can be compared.
#[derive(Clone, Debug, PartialEq, Eq)]
pub struct Summary {
    /// walked from the base: (payload hash, payload length)
    pub chain: Vec<(u64, usize)>,
    pub base: String,
    pub latest: String,
    pub snapshot: Option<(String, u64, u32)>,
    /// version rows stored for this client (equals chain length unless something is orphaned)
    pub stored_versions: usize,
}

fn name(id: Uuid, ids: &[Uuid]) -> String {
    if id.is_nil() {
        return "nil".into();
    }
    match ids.iter().position(|x| *x == id) {
        Some(p) => format!("v{p}"),
        None => id.to_string(),
    }
}

/// "client exists, empty" and "client absent" give the same summary: no protocol read tells them
/// apart, and the HTTP create step is a committed transaction of its own by design.
pub fn summarize(storage: &dyn Storage, dir: &Path, c: Uuid, base_hint: Uuid) -> anyhow::Result<Summary> {
    let mut txn = storage.txn(c)?;
    let client = txn.get_client()?;
    let mut chain = vec![];
    let mut ids = vec![];
    let mut p = base_hint;
    let mut guard = 0;
    while let Some(v) = txn.get_version_by_parent(p)? {
        chain.push((hash_bytes(&v.history_segment), v.history_segment.len()));
        ids.push(v.version_id);
        p = v.version_id;
        guard += 1;
        if guard > 10_000 {
            anyhow::bail!("chain does not terminate");
        }
    }
    let (latest, snapshot) = match client {
        None => ("nil".to_string(), None),
        Some(cl) => {
            let snap = match cl.snapshot {
                None => None,
                Some(s) => {
                    let d = txn.get_snapshot_data(s.version_id)?;
                    Some((name(s.version_id, &ids), d.map(|d| hash_bytes(&d)).unwrap_or(0), s.versions_since))
                }
            };
            (name(cl.latest_version_id, &ids), snap)
        }
    };
    drop(txn);
    let con = rusqlite::Connection::open(dir.join("taskchampion-sync-server.sqlite3"))?;
    con.busy_timeout(std::time::Duration::from_secs(20))?;
    // (a table layout this query does not fit: fall back to the chain length)
    let stored: i64 = con.query_row("SELECT count(*) FROM versions WHERE client_id = ?", [c.to_string()], |r| r.get(0)).unwrap_or(chain.len() as i64);
    Ok(Summary { chain, base: base_hint.to_string(), latest, snapshot, stored_versions: stored as usize })
}

pub fn copy_db(from: &Path, tag: &str) -> std::io::Result<TempDir> {
    let d = TempDir::new(tag);
    for e in std::fs::read_dir(from)? {
        let e = e?;
        let n = e.file_name();
        let n = n.to_string_lossy();
        if n.ends_with("-shm") {
            continue;
        }
        std::fs::copy(e.path(), d.path().join(&*n))?;
    }
    Ok(d)
}

#[derive(Clone, Debug, Serialize, Deserialize, PartialEq, Eq, Hash)]
pub struct FCase {
    pub via: Via,
    pub prefix: Case,
    /// the request that is made to fail (client 0)
    pub target: Op,
    pub fault: Fault,
    /// a second fault, hitting the request that follows (double fault)
    pub second: Option<Fault>,
    /// requests issued afterwards
    pub continuation: Vec<Op>,
}

fn v<T>(m: String) -> Result<T, Fail> {
    Err(Fail::Violation(m))
}

fn run_plain(h: &mut Hist, idx: usize, op: &Op) -> Result<Outcome, Fail> {
    let mut quiet = Stats::default();
    quiet.frozen = true;
    let n0 = h.steps.len();
    h.step(idx, op, &mut quiet)?;
    Ok(if h.steps.len() > n0 { h.steps.last().unwrap().outcome.clone() } else { Outcome::SnapshotOk })
}

/// Issue one request without touching the model (the outcome may be an injected failure).
fn issue(h: &mut Hist, op: &Op) -> Outcome {
    let c = h.clients[0];
    match op {
        Op::AddVersion { parent, data, .. } => {
            let p = h.resolve(parent);
            h.drv.add_version(c, p, &data.expand())
        }
        Op::GetChild { parent, .. } => {
            let p = h.resolve(parent);
            h.drv.get_child(c, p)
        }
        Op::AddSnapshot { version, data, .. } => {
            let v = h.resolve(version);
            h.drv.add_snapshot(c, v, &data.expand())
        }
        Op::GetSnapshot { .. } => h.drv.get_snapshot(c),
        _ => Outcome::SnapshotOk,
    }
}

pub fn check(fc: &FCase, st: &mut Stats) -> CheckResult {
    let shared = Arc::new(Mutex::new(wrap::Shared::default()));
    let dir = TempDir::new("c05");
    let dpath = dir.path().to_path_buf();
    let factory = wrap::instrumented_factory(sqlite_factory(dpath.clone()), shared.clone());
    let drv = Driver::with_factory(Backend::Sqlite, fc.via, &fc.prefix.cfg, None, factory, Some(dir)).map_err(|e| Fail::Violation(format!("opening storage: {e:#}")))?;
    let mut h = Hist::with_driver(&fc.prefix, drv, Oracles::default());
    for (i, op) in fc.prefix.ops.iter().enumerate() {
        if matches!(op, Op::Reopen) {
            continue;
        }
        run_plain(&mut h, i, op)?;
    }
    let c = h.clients[0];
    let base = {
        let m = h.model.client(c);
        if m.chain.is_empty() {
            // the chain base will be whatever the target (or the continuation) submits first
            match &fc.target {
                Op::AddVersion { parent, .. } => h.resolve(parent),
                _ => Uuid::nil(),
            }
        } else {
            m.base()
        }
    };
    let sm = |h: &Hist| summarize(&*h.drv.storage, &dpath, c, base).map_err(|e| Fail::Violation(format!("reading state back failed: {e:#}")));
    let before = sm(&h)?;
    // the state the request leaves when nothing fails: run it on a copy of the database
    let after = {
        let twin_dir = copy_db(&dpath, "c05twin").map_err(|e| Fail::Inconclusive(format!("copying the database: {e}")))?;
        let tpath = twin_dir.path().to_path_buf();
        let tdrv = Driver::with_factory(Backend::Sqlite, fc.via, &fc.prefix.cfg, None, sqlite_factory(tpath.clone()), Some(twin_dir)).map_err(|e| Fail::Violation(format!("opening the twin: {e:#}")))?;
        let mut th = Hist::with_driver(&fc.prefix, tdrv, Oracles::default());
        th.model = h.model.clone();
        let out = issue(&mut th, &fc.target);
        if out.is_error() {
            return v(format!("without any fault the request {:?} fails: {}", fc.target, out.short()));
        }
        summarize(&*th.drv.storage, &tpath, c, base).map_err(|e| Fail::Violation(format!("reading the twin back failed: {e:#}")))?
    };
    let mutating = after != before;

    // the faulted request
    let prev_latest = h.model.client(c).latest();
    let _ = wrap::take_log(&shared);
    wrap::arm(&shared, vec![fc.fault]);
    if let Op::AddVersion { parent, .. } = &fc.target {
        // should the request go back to storage after the failure (nothing obliges it to), a
        // competing AddVersion on the same parent is served in that gap
        let p = h.resolve(parent);
        shared.lock().unwrap().interpose = Some((p, b"competing request".to_vec()));
    }
    let out = issue(&mut h, &fc.target);
    let injected = wrap::disarm(&shared);
    let interposed = {
        let mut s = shared.lock().unwrap();
        s.interpose = None;
        s.interposed.take()
    };
    if let Some(r) = interposed {
        st.label("c05:competing-request-served-after-the-failure");
        if !out.is_error() {
            return v(format!(
                "{:?} via {:?}: storage call {:?} was made to fail, the request went back to storage, a competing AddVersion on the same parent was served meanwhile ({r:?}), and the client was then answered {} - a success although its own change was never committed",
                fc.target,
                fc.via,
                injected.first().map(|i| i.1),
                out.short()
            ));
        }
        // the model cannot follow the competitor's version id through the remaining oracles
        return Ok(());
    }
    let log = wrap::take_log(&shared);
    let now = sm(&h)?;
    st.check();
    let what = format!(
        "{:?} via {:?} on a client with {} versions{}; fault plan {:?}; calls made {:?}",
        fc.target,
        fc.via,
        before.chain.len(),
        if before.snapshot.is_some() { " and a snapshot" } else { "" },
        fc.fault,
        log.iter().filter(|e| e.call != Call::End).map(|e| (e.call, e.ok)).collect::<Vec<_>>()
    );
    // from here on everything is a "later request" (see crash.rs): no answer for 90 s = not served
    let _served = engine::deadline(90, "C05", "trait-fault", fc, &format!("{what}: later requests are not served: no answer within 90 s (the lock-wait budget is 5 s) - something the failed request held is still held"), true);
    if injected.is_empty() {
        // the plan pointed past the end of the request: nothing failed
        st.label("c05:fault-not-reached");
        if out.is_error() {
            return v(format!("{what}: no fault was injected but the request failed: {}", out.short()));
        }
        if now != after {
            return v(format!("{what}: without a fault the state should be {after:?}, is {now:?}"));
        }
        return Ok(());
    }
    let (_, call, after_effect) = injected[0];
    if !out.is_error() {
        return v(format!("{what}: storage call {call:?} failed ({}) but the client was answered {}", if after_effect { "after taking effect" } else { "before taking effect" }, out.short()));
    }
    // a success is only ever sent after a commit that returned Ok - implied by the above; state:
    let ack_lost_only = call == Call::Commit && after_effect;
    if now != before && !(ack_lost_only && now == after) {
        return v(format!("{what}: after the failed request the state is neither as before{}: before {before:?}, now {now:?}", if ack_lost_only { " nor as after" } else { "" }));
    }
    if now != before {
        st.label("c05:ack-lost-state-after");
    }
    st.label(&format!("c05:{:?}:{}:{call:?}:{}", fc.via, fc.target.kind(), if after_effect { "after" } else { "before" }));
    if mutating && call.is_write() {
        st.nontrivial(&("c05", fc.via, fc.target.kind(), call, after_effect, fc.fault.at, before.chain.len().min(3), before.snapshot.is_some()));
    }

    // resynchronise the model with what is stored (the request either happened or did not)
    let applied = now != before;
    if applied {
        // re-learn ids through a plain read
        let mut quiet = Stats::default();
        quiet.frozen = true;
        let mut txn = h.drv.storage.txn(c).map_err(|e| Fail::Violation(format!("later transaction cannot begin: {e:#}")))?;
        if let Some(cl) = txn.get_client().map_err(|e| Fail::Violation(format!("{e:#}")))? {
            if let Op::AddVersion { parent, data, .. } = &fc.target {
                let p = h.resolve(parent);
                if let Some(ver) = txn.get_version(cl.latest_version_id).map_err(|e| Fail::Violation(format!("{e:#}")))? {
                    drop(txn);
                    h.know(ver.version_id);
                    h.model.client_mut(c).apply_accept(ver.version_id, p, Arc::new(data.expand()));
                }
            } else if let Op::AddSnapshot { version, data, .. } = &fc.target {
                drop(txn);
                let ver = h.resolve(version);
                h.model.client_mut(c).apply_snapshot(ver, Arc::new(data.expand()));
            }
        }
    } else if !h.model.client(c).exists {
        // the create step may have been committed on its own: the client may exist, empty
        let exists = crate::hist::client_meta(&h.drv, c).map(|m| m.exists).unwrap_or(false);
        h.model.client_mut(c).exists = exists;
    }

    // later requests are served normally (and do not wait on a leaked lock): first of all the
    // reads - the whole chain as it is stored now is served through the same server object, and
    // the snapshot is a usable base
    let t0 = std::time::Instant::now();
    {
        let mut quiet = Stats::default();
        quiet.frozen = true;
        let served = |f: Fail| match f {
            Fail::Violation(m) => Fail::Violation(format!("{what}: right after the failed request, reads are not served normally (the stored state is {}): {m}", if applied { "as after the request" } else { "as before it" })),
            o => o,
        };
        // which read comes first varies: the retrying client's natural first question (is there a
        // child of what I hold?), the snapshot, or the whole chain from its base
        let order = (fc.fault.at as usize + before.chain.len()) % 3;
        for k in 0..3 {
            match (order + k) % 3 {
                0 => {
                    let mc = h.model.client(c);
                    let out = h.drv.get_child(c, prev_latest);
                    let ok = match (mc.predict_get_child(prev_latest), &out) {
                        (crate::model::GcPred::Found(i), Outcome::Found { id, parent, data }) => *id == mc.chain[i].id && *parent == mc.chain[i].parent && **data == *mc.chain[i].data,
                        (crate::model::GcPred::NotFound, Outcome::NotFound) => true,
                        (crate::model::GcPred::Gone, Outcome::Gone) => true,
                        (crate::model::GcPred::NoSuchClient, Outcome::NoSuchClient) => true,
                        // over HTTP both are a plain 404
                        (crate::model::GcPred::NoSuchClient, Outcome::NotFound) => fc.via == Via::Http,
                        _ => false,
                    };
                    if !ok {
                        return Err(served(Fail::Violation(format!("GetChildVersion({prev_latest}) - the version the client held before the request - answered {}; the stored chain has {} versions, latest {}", out.short(), mc.chain.len(), mc.latest()))));
                    }
                }
                1 => {
                    let out = h.drv.get_snapshot(c);
                    h.c11_check(902, c, &out, &mut quiet).map_err(served)?;
                }
                _ => {
                    h.c01_walk(900, c, &mut quiet).map_err(served)?;
                    h.c11_walk(901, c, &mut quiet).map_err(served)?;
                }
            }
        }
        st.label(&format!("c05:first-read-after-fault:{}", ["get-child-of-held-version", "get-snapshot", "chain-walk"][order]));
    }
    let mut or = Oracles::default();
    or.c02 = true;
    or.c11 = true;
    h.or = or;
    let mut cont: Vec<Op> = fc.continuation.clone();
    cont.push(Op::AddVersion { c: 0, parent: IdRef::Latest(0), data: BytesSpec { len: 5, class: 2, seed: 99 } });
    cont.push(Op::GetChild { c: 0, parent: IdRef::Ancestor(0, 1) });
    cont.push(Op::GetSnapshot { c: 0 });
    let mut quiet = Stats::default();
    quiet.frozen = true;
    for (i, op) in cont.iter().enumerate() {
        if matches!(op, Op::Reopen | Op::AgeSnapshot { .. }) {
            continue;
        }
        if i == 0 {
            if let Some(f2) = fc.second {
                // double fault: the very next request fails as well
                let b2 = sm(&h)?;
                wrap::arm(&shared, vec![f2]);
                let o2 = issue(&mut h, op);
                let inj2 = wrap::disarm(&shared);
                let n2 = sm(&h)?;
                if !inj2.is_empty() {
                    if !o2.is_error() {
                        return v(format!("{what}: second fault {f2:?} in the following request {op:?}: call {:?} failed but the client was answered {}", inj2[0].1, o2.short()));
                    }
                    let lost = inj2[0].1 == Call::Commit && inj2[0].2;
                    if n2 != b2 && !lost {
                        return v(format!("{what}: second fault {f2:?} in the following request {op:?} left a partial effect: {b2:?} -> {n2:?}"));
                    }
                    st.label("c05:double-fault");
                    if h.model.client(c).chain.is_empty() {
                        // the create step may have been committed on its own
                        let exists = crate::hist::client_meta(&h.drv, c).map(|m| m.exists).unwrap_or(false);
                        h.model.client_mut(c).exists = exists;
                    }
                    if n2 != b2 {
                        // applied although the answer was lost: give up on the continuation for
                        // this case (the model cannot know the id); everything checked so far stands
                        return Ok(());
                    }
                    continue;
                } else if o2.is_error() {
                    return v(format!("{what}: the following request {op:?} failed without any injected fault: {}", o2.short()));
                } else {
                    // not reached: the request went through unmodelled; stop here
                    return Ok(());
                }
            }
        }
        h.step(1000 + i, op, &mut quiet).map_err(|f| match f {
            Fail::Violation(m) => Fail::Violation(format!("{what}: later request {i} ({op:?}) is not served normally: {m}")),
            o => o,
        })?;
    }
    if t0.elapsed() > std::time::Duration::from_millis(2500) {
        // slow, but served (a lock left behind would have made them fail or, past 90 s, trip the
        // deadline above); on a busy machine this says nothing
        st.label("c05:later-requests-served-but-slow");
    }
    st.sample(|| serde_json::json!({"case": fc, "calls": log.iter().map(|e| format!("{:?}:{}", e.call, e.ok)).collect::<Vec<_>>(), "injected": format!("{injected:?}"), "answer": out.short()}));
    Ok(())
}

fn target_op() -> impl Strategy<Value = Op> {
    prop_oneof![
        5 => (prop_oneof![5 => Just(IdRef::Latest(0)), 1 => Just(IdRef::Nil), 1 => Just(IdRef::Ancestor(0, 1)), 1 => Just(IdRef::Fresh(2))], case::bytes_spec(300)).prop_map(|(parent, data)| Op::AddVersion { c: 0, parent, data }),
        4 => (prop_oneof![4 => Just(IdRef::Latest(0)), 2 => (1u8..6).prop_map(|b| IdRef::Ancestor(0, b)), 1 => Just(IdRef::Fresh(2)), 1 => Just(IdRef::Nil)], case::bytes_spec(300)).prop_map(|(version, data)| Op::AddSnapshot { c: 0, version, data }),
        1 => prop_oneof![Just(IdRef::Latest(0)), Just(IdRef::Nil), Just(IdRef::Ancestor(0, 2))].prop_map(|parent| Op::GetChild { c: 0, parent }),
        1 => Just(Op::GetSnapshot { c: 0 }),
    ]
}

fn fcase() -> BoxedStrategy<FCase> {
    let mut p = GenParams::default();
    p.max_clients = 1;
    p.max_ops = 10;
    p.min_ops = 0;
    p.w = [60, 0, 25, 0, 0, 0];
    p.av_latest_pct = 92;
    let mut p2 = p.clone();
    p2.w = [40, 20, 25, 15, 0, 0];
    (
        prop_oneof![1 => Just(Via::Lib), 1 => Just(Via::Http)],
        prop_oneof![1 => Just(Case { cfg: Default::default(), salt: 5, nclients: 1, ops: vec![] }), 4 => case::case(&p)],
        target_op(),
        (prop_oneof![5 => 0u32..6, 1 => 0u32..14], any::<bool>()),
        proptest::option::weighted(0.2, (0u32..8, any::<bool>())),
        proptest::collection::vec(case::op(1, &p2), 0..4),
    )
        .prop_map(|(via, prefix, target, (at, after_effect), second, continuation)| FCase {
            via,
            prefix,
            target,
            fault: Fault { at, after_effect },
            second: second.map(|(at, after_effect)| Fault { at, after_effect }),
            continuation,
        })
        .boxed()
}

/// Complete enumeration for the canonical requests: every storage call of the request, failed
/// before and after taking effect.
fn enumerated() -> Vec<FCase> {
    let d = |s: u32| BytesSpec { len: 4 + s % 3, class: 2, seed: s };
    let prefixes: Vec<Vec<Op>> = vec![
        vec![],
        vec![Op::AddVersion { c: 0, parent: IdRef::Nil, data: d(1) }, Op::AddVersion { c: 0, parent: IdRef::Latest(0), data: d(2) }],
        vec![
            Op::AddVersion { c: 0, parent: IdRef::Fresh(100), data: d(1) },
            Op::AddVersion { c: 0, parent: IdRef::Latest(0), data: d(2) },
            Op::AddSnapshot { c: 0, version: IdRef::Ancestor(0, 1), data: d(3) },
            Op::AddVersion { c: 0, parent: IdRef::Latest(0), data: d(4) },
        ],
    ];
    let targets = vec![
        Op::AddVersion { c: 0, parent: IdRef::Latest(0), data: d(10) },
        Op::AddVersion { c: 0, parent: IdRef::Fresh(3), data: d(11) },
        Op::AddSnapshot { c: 0, version: IdRef::Latest(0), data: d(12) },
        Op::AddSnapshot { c: 0, version: IdRef::Ancestor(0, 1), data: d(13) },
        Op::GetChild { c: 0, parent: IdRef::Ancestor(0, 1) },
        Op::GetSnapshot { c: 0 },
    ];
    let mut out = vec![];
    for via in [Via::Lib, Via::Http] {
        for pre in &prefixes {
            for t in &targets {
                for at in 0..14u32 {
                    for after_effect in [false, true] {
                        out.push(FCase {
                            via,
                            prefix: Case { cfg: Default::default(), salt: 5, nclients: 1, ops: pre.clone() },
                            target: t.clone(),
                            fault: Fault { at, after_effect },
                            second: if at % 5 == 0 { Some(Fault { at: at % 4, after_effect: !after_effect }) } else { None },
                            continuation: vec![],
                        });
                    }
                }
            }
        }
    }
    // payloads beyond a megabyte (whatever a backend does with large values - overflow pages,
    // side files - has to fail and roll back with the rest), on a client that already holds a
    // large snapshot
    let big = |s: u32, len: u32| BytesSpec { len, class: 2, seed: s };
    let big_prefix = vec![
        Op::AddVersion { c: 0, parent: IdRef::Nil, data: d(1) },
        Op::AddVersion { c: 0, parent: IdRef::Latest(0), data: big(2, 1_100_000) },
        Op::AddSnapshot { c: 0, version: IdRef::Ancestor(0, 1), data: big(3, 1_200_000) },
        Op::AddVersion { c: 0, parent: IdRef::Latest(0), data: d(4) },
    ];
    for via in [Via::Lib, Via::Http] {
        for t in [Op::AddSnapshot { c: 0, version: IdRef::Latest(0), data: big(12, 1_300_000) }, Op::AddVersion { c: 0, parent: IdRef::Latest(0), data: big(10, 1_150_000) }] {
            for at in 0..8u32 {
                for after_effect in [false, true] {
                    out.push(FCase { via, prefix: Case { cfg: Default::default(), salt: 5, nclients: 1, ops: big_prefix.clone() }, target: t.clone(), fault: Fault { at, after_effect }, second: None, continuation: vec![] });
                }
            }
        }
    }
    out
}

pub fn run_trait_level(rep: &mut Report, tier: Tier, seed: u64) {
    let r = engine::replay_dir::<FCase, _>("C05", "trait-fault", check);
    rep.absorb("replay-tier-trait-faults", r);
    if rep.failed() {
        return;
    }
    let r = engine::enumerate("C05", "trait-fault", enumerated(), check);
    rep.absorb("trait-faults-canonical-requests-every-call", r);
    if rep.failed() {
        return;
    }
    let r = engine::explore("C05", "trait-fault", seed, tier.pick(9000, 80_000), fcase, check);
    rep.absorb("trait-faults-generated", r);
}

pub fn replay(kind: &str, case_json: &Value, st: &mut Stats) -> Option<CheckResult> {
    let bad = |e: serde_json::Error| Fail::Inconclusive(format!("bad replay file: {e}"));
    match kind {
        "trait-fault" => Some(serde_json::from_value(case_json.clone()).map_err(bad).and_then(|c| check(&c, st))),
        _ => None,
    }
}

pub fn run(tier: Tier, seed: u64) -> Report {
    let mut rep = Report::new(
        "C05",
        tier,
        seed,
        "fault_enumeration",
        "SQLite-backed histories (library and HTTP handlers) with a fault plan. Trait level: the k-th storage call of the target request (begin, each read, each write, commit) fails either before taking effect or after taking effect (effect applied, error reported); complete enumeration of (call, before/after) for the canonical requests in three client states, plus generated prefixes/requests/plans and double faults (a second fault in the request that follows). File level: the n-th read/write/sync/truncate/open/delete/lock call of the VFS inside the target request returns an I/O error, or the n-th consultation of the SQL authorizer is refused (the statement being compiled fails whatever is cached). Oracle: an injected trait-level failure => error response, state (ids abstracted to chain positions, incl. stored row count) equal to before - or equal to the fault-free twin's state only when the failed call was a commit that took effect; file level: error => state in {before, after}, success => state = after; afterwards, through the same server object, the first read is - in turn - the child of the version the client held, the snapshot, or the whole chain from its base (all three are made), then a write by the same client and further reads are served per the model without waiting on a leaked lock. Non-trivial: the fault hits a write or commit of a mutating request; distinct by (entry, request kind, call, before/after, call index, state class).",
    );
    rep.assume("'client exists with no versions' is identified with 'client unknown' (no protocol read tells them apart; the HTTP create step is a transaction of its own by design)");
    rep.assume("the fault-free outcome of a request is obtained by running it on a copy of the database file");
    run_trait_level(&mut rep, tier, seed);
    if rep.failed() {
        return rep;
    }
    crate::props::crash::run_file_level_faults(&mut rep, tier, seed);
    rep
}

//! C09 - clients are isolated from one another (two-run non-interference).

use crate::case::{self, Case, GenParams, IdRef, Op};
use crate::driver::{ApiDump, Backend, Via};
use crate::engine::{self, CheckResult, Fail, Report, Stats, Tier};
use crate::hist::run_trace;
use crate::model::IdClass;
use crate::props::seq::{hcase, HCase};
use serde_json::Value;
use uuid::Uuid;

fn own_ref(r: &IdRef, c: u8) -> bool {
    match r {
        IdRef::Nil | IdRef::Fresh(_) | IdRef::Literal(_) | IdRef::OfClients(..) => true,
        IdRef::Latest(k) | IdRef::Ancestor(k, _) | IdRef::Base(k) | IdRef::SnapVersion(k) | IdRef::Near(k, _, _) => *k == c,
    }
}

fn check(hc: &HCase, st: &mut Stats) -> CheckResult {
    let case = &hc.case;
    // run the whole history; around each op of client c, every *other* client's state must not move
    let mut resolved: Vec<Option<Uuid>> = vec![None; case.ops.len()];
    // if the id argument turned out to be one of the client's own versions: how far back
    let mut own_back: Vec<Option<usize>> = vec![None; case.ops.len()];
    let mut foreign_existing: Vec<bool> = vec![false; case.ops.len()];
    let mut before: Option<ApiDump> = None;
    let mut abandoned = false;
    let (full, hfull) = run_trace(case, hc.backend, hc.via, true, true, |h, idx, op, after| {
        let Some(c) = op.client() else { return Ok(()) };
        let cid = h.clients[c as usize % h.clients.len()];
        let others: Vec<Uuid> = h.clients.iter().copied().filter(|x| *x != cid).collect();
        if others.is_empty() {
            return Ok(());
        }
        if !after && h.drv.via == Via::Http && (case.salt as usize + idx) % 3 == 0 {
            // other clients' *refused* requests are part of "other clients' requests" too: a
            // broken transfer, an empty body, a wrong media type by another client just before
            let o = others[(case.salt as usize / 3 + idx) % others.len()];
            let body = bytes::Bytes::from_static(b"noise-noise-noise");
            let mut req = match (case.salt as usize / 7 + idx) % 4 {
                0 => crate::driver::req_add_version(o, Uuid::nil(), vec![body.clone(), body.clone()]),
                1 => crate::driver::req_add_snapshot(o, Uuid::nil(), vec![body.clone(), body.clone()]),
                2 => crate::driver::req_add_version(o, Uuid::nil(), vec![]),
                _ => {
                    let mut r = crate::driver::req_add_version(o, Uuid::nil(), vec![body.clone()]);
                    r.headers.retain(|(n, _)| !n.eq_ignore_ascii_case("content-type"));
                    r
                }
            };
            if (case.salt as usize / 7 + idx) % 4 < 2 {
                req.headers.push((crate::driver::BREAK_PSEUDO_HEADER.into(), format!("1:{}", idx % 5).into_bytes()));
            }
            let r = h.drv.http_call(req);
            if (200..300).contains(&r.status) {
                // not refused (C15's business): the two runs are no longer comparable
                abandoned = true;
            }
            st.label("c09:refused-request-of-another-client-interleaved");
        }
        if !after {
            // remember what the id argument resolves to in the full run
            let r = match op {
                Op::AddVersion { parent, .. } | Op::GetChild { parent, .. } => Some(parent),
                Op::AddSnapshot { version, .. } => Some(version),
                _ => None,
            };
            if let Some(r) = r {
                let id = h.resolve(r);
                resolved[idx] = Some(id);
                let m = h.model.client(cid);
                own_back[idx] = m.pos(id).map(|p| m.chain.len() - 1 - p);
                foreign_existing[idx] = h.model.classify(cid, id) == IdClass::Foreign;
            }
            before = Some(h.drv.api_dump(&others, &h.ids).map_err(|e| Fail::Violation(format!("storage API failed while dumping: {e:#}")))?);
        } else {
            let ids = h.ids.clone();
            let a = h.drv.api_dump(&others, &ids).map_err(|e| Fail::Violation(format!("storage API failed while dumping: {e:#}")))?;
            let b = before.take().unwrap();
            for o in &others {
                // ids learnt during the op itself cannot belong to others; compare what both know
                let (x, y) = (&b.clients[o], &a.clients[o]);
                if x.exists != y.exists || x.latest != y.latest || x.snapshot != y.snapshot || x.versions != y.versions.iter().filter(|(k, _)| x.versions.contains_key(*k) || false).map(|(k, v)| (*k, *v)).collect() || x.by_parent != y.by_parent.iter().filter(|(k, _)| x.by_parent.contains_key(*k)).map(|(k, v)| (*k, *v)).collect() {
                    return Err(Fail::Violation(format!("step {idx}: a request of client {cid} ({}) changed stored data of client {o}: before {x:?} after {y:?}", op.kind())));
                }
                // and nothing new appeared under the other client either
                if y.versions.len() != x.versions.len() || y.by_parent.len() != x.by_parent.len() {
                    return Err(Fail::Violation(format!("step {idx}: a request of client {cid} ({}) added records under client {o}: before {x:?} after {y:?}", op.kind())));
                }
            }
            st.check();
        }
        Ok(())
    })?;

    if abandoned {
        return Ok(());
    }
    // a well-formed request is never answered with a server error, whoever else is busy
    if let Some((i, l)) = full.iter().enumerate().find(|(_, l)| l.contains(":Error(")) {
        return Err(Fail::Violation(format!("op {i} ({:?}) was answered {l} with other clients' requests (refused ones included) interleaved", case.ops[i])));
    }

    // project onto each client and re-run alone
    for c in 0..case.nclients {
        let idxs: Vec<usize> = case.ops.iter().enumerate().filter(|(_, op)| op.client() == Some(c) || matches!(op, Op::Reopen)).map(|(i, _)| i).collect();
        let mine = idxs.iter().filter(|i| case.ops[**i].client() == Some(c)).count();
        if mine == 0 {
            continue;
        }
        let ops: Vec<Op> = idxs
            .iter()
            .map(|i| {
                let lit = |r: &IdRef| {
                    if own_ref(r, c) {
                        r.clone()
                    } else if let Some(b) = own_back[*i] {
                        // a reference through another client that lands on one of this client's
                        // own versions (e.g. the other chain was started from it)
                        if b == 0 { IdRef::Latest(c) } else { IdRef::Ancestor(c, b.min(255) as u8) }
                    } else {
                        IdRef::Literal(resolved[*i].unwrap_or(Uuid::nil()))
                    }
                };
                match &case.ops[*i] {
                    Op::AddVersion { c, parent, data } => Op::AddVersion { c: *c, parent: lit(parent), data: data.clone() },
                    Op::GetChild { c, parent } => Op::GetChild { c: *c, parent: lit(parent) },
                    Op::AddSnapshot { c, version, data } => Op::AddSnapshot { c: *c, version: lit(version), data: data.clone() },
                    o => o.clone(),
                }
            })
            .collect();
        let solo = Case { cfg: case.cfg.clone(), salt: case.salt, nclients: case.nclients, ops };
        let (alone, _) = run_trace(&solo, hc.backend, hc.via, true, true, |_, _, _, _| Ok(()))?;
        for (k, i) in idxs.iter().enumerate() {
            if case.ops[*i].client() != Some(c) {
                continue;
            }
            if full[*i] != alone[k] {
                return Err(Fail::Violation(format!(
                    "client #{c}: op {i} ({:?}) was answered {} with other clients' requests interleaved, but {} when the same client's requests run alone",
                    case.ops[*i], full[*i], alone[k]
                )));
            }
        }
        st.check();
        // non-trivial: quotes a foreign id that exists at that moment, and another client wrote
        // between two of this client's ops
        let quotes = idxs.iter().any(|i| foreign_existing[*i] && case.ops[*i].client() == Some(c));
        let first = idxs.iter().find(|i| case.ops[**i].client() == Some(c)).copied().unwrap_or(0);
        let last = idxs.iter().rev().find(|i| case.ops[**i].client() == Some(c)).copied().unwrap_or(0);
        let other_write = hfull.steps.iter().any(|s| {
            s.idx > first && s.idx < last && s.op.client() != Some(c) && (matches!(s.outcome, crate::driver::Outcome::Accepted { .. }) || s.replaced == Some(true))
        });
        if quotes {
            st.label("c09:quotes-existing-foreign-id");
        }
        if quotes && other_write {
            let shape: Vec<String> = idxs.iter().map(|i| full[*i].split('(').next().unwrap_or("").to_string()).collect();
            st.nontrivial(&("c09", shape, hc.backend, hc.via));
        }
    }
    st.sample(|| serde_json::json!({"backend": format!("{:?}", hc.backend), "via": format!("{:?}", hc.via), "case": case, "answers": full}));
    Ok(())
}

pub fn run(tier: Tier, seed: u64) -> Report {
    let mut rep = Report::new(
        "C09",
        tier,
        seed,
        "exploration",
        "generated histories over 2-4 clients in which about a third of the id arguments are other clients' ids (latest, ancestors, base, snapshot version); the whole history is run, then each client's projection is re-run alone on a fresh backend of the same kind (foreign ids kept as concrete ids, own ids compared by chain position) and must get the same answers op by op; around every op the storage-API dump of every other client must not move; plus the complete table of ids crossing roles (a client whose id is a version id of another client, uploading with that client's id, nil, its own id or that client's latest version as parent: nothing of it may show in what the other client is told). Non-trivial: the compared client quotes a foreign id that exists at that moment and another client wrote between two of its ops; distinct by the client's answer-kind sequence, backend, entry point.",
    );
    rep.assume("two runs are compared through chain positions for the client's own version ids and concretely for every other id");
    let r = engine::replay_dir::<HCase, _>("C09", "history", check);
    rep.absorb("replay-tier", r);
    if rep.failed() {
        return rep;
    }
    // two clients whose requests overlap in time: each is answered as if it were alone
    crate::props::conc::two_clients_subrun("C09", &mut rep, tier);
    if rep.failed() {
        return rep;
    }
    let mut p = GenParams::default();
    p.max_clients = 4;
    p.empty_permille = 30;
    p.max_ops = tier.pick(36, 90);
    p.min_ops = 4;
    p.foreign_pct = 130; // relative weight: about a third of all id arguments
    p.w = [40, 18, 25, 8, 4, 5];
    p.av_latest_pct = 55;
    let total = tier.pick(8000, 80_000);
    let r = engine::explore("C09", "history", seed, total, || hcase(&p, 20).prop_filter_map_nclients(), check);
    rep.absorb("random-histories", r);
    if rep.failed() {
        return rep;
    }
    // ids that cross roles: a client whose id *is* a version id of another client, naming that
    // client's id (or one of its versions) as a parent
    let mut cases = vec![];
    for backend in [Backend::Mem, Backend::Sqlite] {
        for via in [Via::Lib, Via::Http] {
            for n in 1u8..=4 {
                for which in 0..n {
                    for x_parent in 0u8..4 {
                        cases.push(XCase { backend, via, n, which, x_parent, more: (n + which + x_parent) % 2 == 0 });
                    }
                }
            }
        }
    }
    let r = engine::enumerate("C09", "cross-roles", cases, check_cross_roles);
    rep.absorb("ids-crossing-roles", r);
    if rep.failed() {
        return rep;
    }
    // many clients at once (beyond any small table or cache a server might keep per client)
    let mut pm = p.clone();
    pm.max_clients = 24;
    pm.min_ops = 30;
    pm.max_ops = tier.pick(70, 160);
    let r = engine::explore("C09", "history", seed ^ 0x9, tier.pick(250, 3000), || hcase(&pm, 20).prop_filter_map_nclients(), check);
    rep.absorb("random-histories-up-to-24-clients", r);
    rep
}

/// at least two clients (construction, not rejection: bump the count)
trait MinClients {
    fn prop_filter_map_nclients(self) -> proptest::strategy::BoxedStrategy<HCase>;
}
impl MinClients for proptest::strategy::BoxedStrategy<HCase> {
    fn prop_filter_map_nclients(self) -> proptest::strategy::BoxedStrategy<HCase> {
        use proptest::strategy::Strategy;
        self.prop_map(|mut hc| {
            if hc.case.nclients < 2 {
                hc.case.nclients = 2;
                // re-home every second op to the new client so that both are active
                for (i, op) in hc.case.ops.iter_mut().enumerate() {
                    if i % 2 == 1 {
                        match op {
                            Op::AddVersion { c, parent, .. } => {
                                *c = 1;
                                if *parent == IdRef::Latest(0) {
                                    *parent = IdRef::Latest(1);
                                }
                            }
                            Op::GetChild { c, .. } | Op::AddSnapshot { c, .. } | Op::GetSnapshot { c } | Op::AgeSnapshot { c, .. } | Op::NewClient { c } => *c = 1,
                            Op::Reopen => {}
                        }
                    }
                }
            }
            hc
        })
        .boxed()
    }
}

/// Client B uploads `n` versions; a second client X whose client id is B's version number
/// `which` then uploads with a parent chosen by `x_parent` (0: B's client id, 1: nil, 2: the same
/// version id, 3: B's latest version) - every one of them a legal first parent of a new client.
/// Nothing of that may show in what B is told afterwards.
#[derive(Clone, Debug, serde::Serialize, serde::Deserialize, PartialEq, Eq, Hash)]
pub struct XCase {
    pub backend: Backend,
    pub via: Via,
    pub n: u8,
    pub which: u8,
    pub x_parent: u8,
    /// X uploads a second version and a snapshot too
    pub more: bool,
}

fn check_cross_roles(xc: &XCase, st: &mut Stats) -> CheckResult {
    use crate::driver::{Driver, Outcome};
    let v = |m: String| -> CheckResult { Err(Fail::Violation(format!("{xc:?}: {m}"))) };
    let mut drv = Driver::new(xc.backend, xc.via, &case::Cfg::default()).map_err(|e| Fail::Violation(format!("opening storage: {e:#}")))?;
    let b = case::client_uuid(9, 0);
    let mut chain: Vec<(Uuid, Uuid, Vec<u8>)> = vec![];
    let mut latest = Uuid::nil();
    for i in 0..xc.n {
        let data = vec![b'b', i, 7];
        match drv.add_version(b, latest, &data) {
            Outcome::Accepted { id, .. } => {
                chain.push((latest, id, data));
                latest = id;
            }
            o => return v(format!("set-up: B's upload {i} answered {}", o.short())),
        }
    }
    let x = chain[xc.which as usize % chain.len()].1;
    let xp = match xc.x_parent % 4 {
        0 => b,
        1 => Uuid::nil(),
        2 => x,
        _ => latest,
    };
    let mut xlatest = match drv.add_version(x, xp, b"x-one") {
        Outcome::Accepted { id, .. } => id,
        o => return v(format!("the first upload of client {x} (an unknown client; parent {xp}) answered {}", o.short())),
    };
    if xc.more {
        match drv.add_version(x, xlatest, b"x-two") {
            Outcome::Accepted { id, .. } => xlatest = id,
            o => return v(format!("the second upload of client {x} answered {}", o.short())),
        }
        match drv.add_snapshot(x, xlatest, b"x-snap") {
            Outcome::SnapshotOk => {}
            o => return v(format!("a snapshot upload of client {x} answered {}", o.short())),
        }
    }
    st.check();
    // B: every version is served from its parent as before, the latest has no child, a stale
    // parent conflicts, the next upload on the latest is accepted, no snapshot appeared
    for (p, id, data) in &chain {
        match drv.get_child(b, *p) {
            Outcome::Found { id: gid, parent, data: d } if gid == *id && parent == *p && d.as_ref() == data.as_slice() => {}
            o => return v(format!("after client {x} (named after B's version) uploaded with parent {xp}: B's GetChildVersion({p}) answered {}", o.short())),
        }
    }
    match drv.get_child(b, latest) {
        Outcome::NotFound => {}
        o => return v(format!("after client {x} uploaded with parent {xp}: B's GetChildVersion(latest {latest}) answered {}", o.short())),
    }
    match drv.get_snapshot(b) {
        Outcome::NoSnapshot => {}
        o => return v(format!("after client {x} uploaded: B's GetSnapshot answered {}", o.short())),
    }
    if xc.n >= 2 {
        match drv.add_version(b, chain[0].1, b"stale") {
            Outcome::Conflict { latest: l } if l == latest => {}
            o => return v(format!("after client {x} uploaded with parent {xp}: B's AddVersion on a stale parent answered {}", o.short())),
        }
    }
    match drv.add_version(b, latest, b"b-next") {
        Outcome::Accepted { .. } => {}
        o => return v(format!("after client {x} (named after B's version {}) uploaded with parent {xp}: B's AddVersion on its latest version {latest} answered {}", xc.which, o.short())),
    }
    // and X sees its own chain only
    match drv.get_child(x, xlatest) {
        Outcome::NotFound => {}
        o => return v(format!("client {x}: GetChildVersion(latest) answered {}", o.short())),
    }
    st.label(&format!("c09:cross-roles:{:?}/{:?}", xc.backend, xc.via));
    st.nontrivial(xc);
    Ok(())
}

pub fn replay(kind: &str, case_json: &Value, st: &mut Stats) -> CheckResult {
    let _ = case::N_CLASSES;
    match kind {
        "cross-roles" => {
            let xc: XCase = serde_json::from_value(case_json.clone()).map_err(|e| Fail::Inconclusive(format!("bad replay file: {e}")))?;
            check_cross_roles(&xc, st)
        }
        "two-clients" => crate::props::conc::two_clients_replay(case_json, st),
        "history" => {
            let hc: HCase = serde_json::from_value(case_json.clone()).map_err(|e| Fail::Inconclusive(format!("bad replay file: {e}")))?;
            check(&hc, st)
        }
        _ => Err(Fail::Inconclusive(format!("unknown replay kind {kind}"))),
    }
}

//! C19 - databases written by the pinned release stay readable after an upgrade.
//!
//! `mkfixtures` (run once, against the pinned tree) writes a corpus of data directories with their
//! expected logical content; the check opens scratch copies with the *current* code.

use crate::case::{self, BytesSpec, Case, GenParams, IdRef, Op};
use crate::driver::{hash_bytes, sqlite_factory, Backend, Driver, Outcome, TempDir, Via};
use crate::engine::{self, CheckResult, Fail, Report, Stats, Tier};
use crate::hist::{Hist, Oracles};
use crate::model::{MClient, MSnap, MVersion, Model};
use crate::vfs::{self, Image, OpK};
use proptest::prelude::*;
use serde::{Deserialize, Serialize};
use serde_json::Value;
use std::collections::BTreeMap;
use std::path::{Path, PathBuf};
use std::sync::Arc;
use taskchampion_sync_server_core::Storage;
use uuid::Uuid;

#[derive(Clone, Debug, Serialize, Deserialize)]
pub struct XVersion {
    pub id: Uuid,
    pub parent: Uuid,
    pub spec: BytesSpec,
    pub hash: String,
}

#[derive(Clone, Debug, Serialize, Deserialize)]
pub struct XSnapshot {
    pub version: Uuid,
    pub spec: BytesSpec,
    pub hash: String,
    pub since: u32,
    pub ts: i64,
}

#[derive(Clone, Debug, Serialize, Deserialize)]
pub struct XClient {
    pub id: Uuid,
    pub chain: Vec<XVersion>,
    pub latest: Uuid,
    pub snapshot: Option<XSnapshot>,
}

#[derive(Clone, Debug, Serialize, Deserialize)]
pub struct Expected {
    pub repo_commit: String,
    pub variant: String,
    pub note: String,
    pub salt: u32,
    pub nclients: u8,
    pub clients: Vec<XClient>,
    /// client ids the directory knows nothing about
    pub absent: Vec<Uuid>,
}

fn v<T>(m: String) -> Result<T, Fail> {
    Err(Fail::Violation(m))
}

pub fn fixtures_root() -> PathBuf {
    engine::verif_root().join("fixtures")
}

// ---------------------------------------------------------------------------------------------
// writing the corpus (pinned tree only)

fn specs_of(case: &Case) -> BTreeMap<(u64, usize), BytesSpec> {
    let mut m = BTreeMap::new();
    for op in &case.ops {
        if let Op::AddVersion { data, .. } | Op::AddSnapshot { data, .. } = op {
            let b = data.expand();
            m.insert((hash_bytes(&b), b.len()), data.clone());
        }
    }
    m
}

/// What a directory contains according to the code that is linked into this binary.
fn read_out(dir: &Path, clients: &[Uuid], bases: &BTreeMap<Uuid, Uuid>, specs: &BTreeMap<(u64, usize), BytesSpec>) -> anyhow::Result<(Vec<XClient>, Vec<Uuid>)> {
    let st = sqlite_factory(dir.to_path_buf())()?.served;
    let mut out = vec![];
    let mut absent = vec![];
    for c in clients {
        let mut t = st.txn(*c)?;
        let Some(cl) = t.get_client()? else {
            absent.push(*c);
            continue;
        };
        let mut chain = vec![];
        let mut p = bases.get(c).copied().unwrap_or(Uuid::nil());
        while let Some(ver) = t.get_version_by_parent(p)? {
            let key = (hash_bytes(&ver.history_segment), ver.history_segment.len());
            let spec = specs.get(&key).cloned().ok_or_else(|| anyhow::anyhow!("payload of {} not among the uploaded ones", ver.version_id))?;
            chain.push(XVersion { id: ver.version_id, parent: ver.parent_version_id, spec, hash: format!("{:016x}", key.0) });
            p = ver.version_id;
        }
        let snapshot = match cl.snapshot {
            None => None,
            Some(s) => {
                let d = t.get_snapshot_data(s.version_id)?.ok_or_else(|| anyhow::anyhow!("snapshot without data"))?;
                let key = (hash_bytes(&d), d.len());
                let spec = specs.get(&key).cloned().ok_or_else(|| anyhow::anyhow!("snapshot payload not among the uploaded ones"))?;
                Some(XSnapshot { version: s.version_id, spec, hash: format!("{:016x}", key.0), since: s.versions_since, ts: s.timestamp.timestamp() })
            }
        };
        if chain.is_empty() && snapshot.is_none() && cl.latest_version_id.is_nil() {
            absent.push(*c);
            continue;
        }
        out.push(XClient { id: *c, chain, latest: cl.latest_version_id, snapshot });
    }
    Ok((out, absent))
}

fn fixture_case(k: u32) -> Case {
    // deterministic, hand-shaped histories: several clients, nil and non-nil bases, snapshots
    // replaced, conflicts in between, payloads of several sizes and byte classes
    let d = |seed: u32, len: u32, class: u8| BytesSpec { len, class, seed };
    let mut ops = vec![];
    let big = match k % 4 {
        0 => 60u32,
        1 => 3990,
        2 => 70_000,
        _ => 9000,
    };
    let n0 = 3 + (k % 5) as usize * 2;
    for i in 0..n0 {
        ops.push(Op::AddVersion { c: 0, parent: if i == 0 { IdRef::Nil } else { IdRef::Latest(0) }, data: d(k * 100 + i as u32, if i == 2 { big } else { 10 + i as u32 * 7 }, (i as u8 + k as u8) % case::N_CLASSES) });
        if i == 1 || i == n0 - 2 {
            ops.push(Op::AddSnapshot { c: 0, version: IdRef::Latest(0), data: d(k * 100 + 50 + i as u32, if i == 1 { big / 3 + 5 } else { 33 }, (3 + i as u8) % case::N_CLASSES) });
        }
        if i == 3 {
            ops.push(Op::AddVersion { c: 0, parent: IdRef::Ancestor(0, 2), data: d(7, 5, 2) }); // conflict
        }
    }
    for i in 0..(2 + k % 3) as usize {
        ops.push(Op::AddVersion { c: 1, parent: if i == 0 { IdRef::Fresh(100 + k) } else { IdRef::Latest(1) }, data: d(k * 100 + 70 + i as u32, 20 + i as u32, (5 + i as u8) % case::N_CLASSES) });
    }
    if k % 2 == 0 {
        ops.push(Op::AddSnapshot { c: 1, version: IdRef::Ancestor(1, 1), data: d(k * 100 + 90, 64, 6) });
        ops.push(Op::AgeSnapshot { c: 1, days: 20 + k as u16 });
    }
    ops.push(Op::AddVersion { c: 2, parent: IdRef::Nil, data: d(k * 100 + 95, 1, 1) });
    // the last requests: what the crash variants cut into
    ops.push(Op::AddVersion { c: 0, parent: IdRef::Latest(0), data: d(k * 100 + 96, big / 2 + 17, 2) });
    ops.push(Op::AddSnapshot { c: 0, version: IdRef::Latest(0), data: d(k * 100 + 97, 120, 4) });
    Case { cfg: Default::default(), salt: 1900 + k, nclients: 4, ops }
}

pub fn mkfixtures(out: &Path, commit: &str, only_variant: Option<&str>, start_index: usize) -> anyhow::Result<()> {
    std::fs::create_dir_all(out)?;
    let mut n = start_index;
    for k in 0..8u32 {
        let case = fixture_case(k);
        let specs = specs_of(&case);
        let via = if k % 2 == 0 { Via::Lib } else { Via::Http };
        let dir = TempDir::new("mkfx");
        let dpath = dir.path().to_path_buf();
        let rec = vfs::track(&dpath);
        let mut drv = Driver::with_factory(Backend::Sqlite, via, &case.cfg, None, sqlite_factory(dpath.clone()), None)?;
        drv.db_path = Some(dpath.clone());
        let mut h = Hist::with_driver(&case, drv, Oracles::default());
        let mut quiet = Stats::default();
        quiet.frozen = true;
        let mut ranges = vec![];
        for (i, op) in case.ops.iter().enumerate() {
            let s = rec.len();
            h.step(i, op, &mut quiet).map_err(|_| anyhow::anyhow!("history step {i} failed"))?;
            ranges.push((s, rec.len()));
        }
        let ops = std::mem::take(&mut rec.state.lock().unwrap().ops);
        vfs::untrack();
        let clients = h.clients.clone();
        let bases: BTreeMap<Uuid, Uuid> = clients.iter().map(|c| (*c, h.model.client(*c).base())).collect();
        drop(h);
        let mut write = |variant: &str, note: &str, img: Option<&Image>| -> anyhow::Result<()> {
            if let Some(v) = only_variant {
                if v != variant {
                    return Ok(());
                }
            }
            let fdir = out.join(format!("{n:02}-{variant}"));
            let _ = std::fs::remove_dir_all(&fdir);
            let data = fdir.join("data");
            std::fs::create_dir_all(&data)?;
            match img {
                Some(img) => vfs::write_image(img, &data)?,
                None => {
                    for e in std::fs::read_dir(&dpath)? {
                        let e = e?;
                        if !e.file_name().to_string_lossy().ends_with("-shm") {
                            std::fs::copy(e.path(), data.join(e.file_name()))?;
                        }
                    }
                }
            }
            // what the directory contains, according to the code that wrote it: recover a copy
            let scratch = crate::props::fault::copy_db(&data, "mkfxread")?;
            let (xc, absent) = read_out(scratch.path(), &clients, &bases, &specs)?;
            let exp = Expected { repo_commit: commit.to_string(), variant: variant.to_string(), note: note.to_string(), salt: case.salt, nclients: case.nclients, clients: xc, absent };
            std::fs::write(fdir.join("expected.json"), serde_json::to_string_pretty(&exp)?)?;
            n += 1;
            Ok(())
        };
        write("clean", "closed cleanly after the last request", None)?;
        // crash variants from the recorded file operations of the last AddVersion (second to last op)
        let (s, e) = ranges[case.ops.len() - 2];
        let img_at = |k: usize| {
            let mut img = Image::default();
            for op in &ops[..k] {
                vfs::apply(&mut img, op);
            }
            img
        };
        // right after the first sync of the write-ahead log inside that request: committed, not
        // checkpointed
        // (the last sync of the write-ahead log before the checkpoint starts writing the database file)
        let first_db_write = (s..e).find(|i| !ops[*i].file.ends_with("-wal") && matches!(ops[*i].k, OpK::Write { .. })).unwrap_or(e);
        if let Some(p) = (s..first_db_write).rev().find(|i| ops[*i].file.ends_with("-wal") && ops[*i].k == OpK::Sync) {
            write("wal-leftover", "process killed right after a commit reached the write-ahead log, before any checkpoint: the directory holds a -wal file with committed frames", Some(&img_at(p + 1)))?;
        }
        // in the middle of the frames of that transaction
        let wal_writes: Vec<usize> = (s..e).filter(|i| ops[*i].file.ends_with("-wal") && matches!(ops[*i].k, OpK::Write { .. })).collect();
        if wal_writes.len() >= 3 {
            let p = wal_writes[wal_writes.len() / 2];
            write("crash-mid-transaction", "process killed while a transaction was writing its frames to the write-ahead log", Some(&img_at(p)))?;
        }
        // killed between the creation of a new client and its first version: the client record
        // exists, empty (the first AddVersion of client 2 is the op in question)
        if let Some(pos) = case.ops.iter().position(|o| matches!(o, Op::AddVersion { c: 2, .. })) {
            let (s2, e2) = ranges[pos];
            let deletes: Vec<usize> = (s2..e2).filter(|i| ops[*i].file.ends_with("-wal") && ops[*i].k == OpK::Delete).collect();
            // transactions of that request: look-up (no such client), creation, add: cut after the second one closed
            if deletes.len() >= 3 {
                write("crash-after-client-creation", "process killed after a new client's record was committed and before its first version was added: the directory holds a client without versions next to clients with history", Some(&img_at(deletes[1] + 1)))?;
            }
        }
        if k == 0 {
            // killed during the very first start, while the schema was being set up: after each
            // commit of a set-up statement reached the write-ahead log (and once in mid-statement)
            let setup_end = ranges[0].0;
            let syncs: Vec<usize> = (0..setup_end).filter(|i| ops[*i].file.ends_with("-wal") && ops[*i].k == OpK::Sync).collect();
            let mut cuts: Vec<usize> = syncs.iter().map(|i| i + 1).collect();
            if let Some(first) = syncs.first() {
                cuts.push(first / 2);
            }
            cuts.sort();
            cuts.dedup();
            for (j, c) in cuts.iter().enumerate().take(8) {
                write("crash-during-first-start", &format!("process killed during the very first start on an empty directory, after file operation {c} of the {setup_end} the schema set-up makes (cut {j})"), Some(&img_at(*c)))?;
            }
        }
        if k % 3 == 0 {
            // in the middle of the checkpoint that follows (database file being written)
            let db_writes: Vec<usize> = (s..e).filter(|i| !ops[*i].file.ends_with("-wal") && matches!(ops[*i].k, OpK::Write { .. })).collect();
            if db_writes.len() >= 2 {
                write("crash-mid-checkpoint", "process killed while the checkpoint was copying pages into the database file", Some(&img_at(db_writes[db_writes.len() / 2])))?;
            }
        }
    }
    println!("wrote {n} fixtures to {}", out.display());
    Ok(())
}

// ---------------------------------------------------------------------------------------------
// the check

#[derive(Clone, Debug, Serialize, Deserialize)]
pub struct XCase {
    pub fixture: String,
    pub via: Via,
    pub continuation: Vec<Op>,
}

fn load(fixture: &str) -> Result<(Expected, PathBuf), Fail> {
    let dir = fixtures_root().join(fixture);
    let text = std::fs::read_to_string(dir.join("expected.json")).map_err(|e| Fail::Inconclusive(format!("fixture {fixture}: {e}")))?;
    let exp: Expected = serde_json::from_str(&text).map_err(|e| Fail::Inconclusive(format!("fixture {fixture}: {e}")))?;
    Ok((exp, dir.join("data")))
}

pub fn list_fixtures() -> Vec<String> {
    let mut v: Vec<String> = std::fs::read_dir(fixtures_root()).map(|rd| rd.flatten().filter(|e| e.path().join("expected.json").is_file()).map(|e| e.file_name().to_string_lossy().into_owned()).collect()).unwrap_or_default();
    v.sort();
    v
}

fn check(xc: &XCase, st: &mut Stats) -> CheckResult {
    let (exp, data) = load(&xc.fixture)?;
    let scratch = crate::props::fault::copy_db(&data, "c19").map_err(|e| Fail::Inconclusive(format!("copying the fixture: {e}")))?;
    // operators keep data directories under all sorts of names; the directory the old release
    // wrote is found again under any of them
    let dname = ["", "replica#1", "a?mode=ro", "sp ace", "p%41q", "d\u{e4}t\u{e4}", "", "x/y"][(hash_bytes(xc.fixture.as_bytes()) as usize + xc.continuation.len()) % 8];
    let dpath = if dname.is_empty() {
        scratch.path().to_path_buf()
    } else {
        let d = scratch.path().join(dname);
        std::fs::create_dir_all(&d).map_err(|e| Fail::Inconclusive(format!("copying the fixture: {e}")))?;
        for e in std::fs::read_dir(scratch.path()).map_err(|e| Fail::Inconclusive(format!("copying the fixture: {e}")))?.flatten() {
            if e.path().is_file() {
                std::fs::rename(e.path(), d.join(e.file_name())).map_err(|e| Fail::Inconclusive(format!("copying the fixture: {e}")))?;
            }
        }
        st.label(&format!("c19:directory-name:{dname}"));
        d
    };
    let what = format!("fixture {} ({}, written by {})", xc.fixture, exp.variant, &exp.repo_commit[..exp.repo_commit.len().min(10)]);
    let cfg = case::Cfg::default();
    let mut drv = Driver::with_factory(Backend::Sqlite, xc.via, &cfg, None, sqlite_factory(dpath.clone()), Some(scratch)).map_err(|e| Fail::Violation(format!("{what}: the directory does not open with the current code: {e:#}")))?;
    drv.db_path = Some(dpath.clone());
    let dummy = Case { cfg: cfg.clone(), salt: exp.salt, nclients: exp.nclients, ops: vec![] };
    let mut h = Hist::with_driver(&dummy, drv, Oracles::default());
    // the model, initialised from the expected content
    let mut model = Model::default();
    for c in &exp.clients {
        let mut m = MClient { exists: true, ..Default::default() };
        for ver in &c.chain {
            let b = ver.spec.expand();
            if format!("{:016x}", hash_bytes(&b)) != ver.hash {
                return Err(Fail::Inconclusive(format!("{what}: the harness no longer reproduces the payload of {}", ver.id)));
            }
            m.chain.push(MVersion { id: ver.id, parent: ver.parent, data: Arc::new(b) });
            h.know(ver.id);
            h.know(ver.parent);
        }
        if let Some(s) = &c.snapshot {
            let days = (chrono::Utc::now().timestamp() - s.ts).div_euclid(86400);
            m.snap = Some(MSnap { version: s.version, data: Arc::new(s.spec.expand()), since: s.since as u64, days, generation: 0 });
            m.snaps_accepted = 1;
        }
        if !h.clients.contains(&c.id) {
            return Err(Fail::Inconclusive(format!("{what}: client ids of the fixture are not the ones derived from its salt")));
        }
        model.clients.insert(c.id, m);
    }
    h.model = model;
    st.check();
    // 1. the directory serves exactly the history it contained
    for c in &exp.clients {
        let m = h.model.client(c.id);
        let mut p = m.base();
        for (i, ver) in m.chain.iter().enumerate() {
            match h.drv.get_child(c.id, p) {
                Outcome::Found { id, parent, data } if id == ver.id && parent == ver.parent && *data == *ver.data => p = id,
                o => return v(format!("{what}: client {}: version {i} of {} ({}, {} bytes) is served as {}", c.id, m.chain.len(), ver.id, ver.data.len(), o.short())),
            }
        }
        match h.drv.get_child(c.id, p) {
            Outcome::NotFound => {}
            o => return v(format!("{what}: client {}: after the latest version the server answers {}", c.id, o.short())),
        }
        match (&m.snap, h.drv.get_snapshot(c.id)) {
            (None, Outcome::NoSnapshot) => {}
            (Some(s), Outcome::Snapshot { id, data }) if id == s.version && *data == *s.data => {}
            (s, o) => return v(format!("{what}: client {}: snapshot expected {:?}, served {}", c.id, s.as_ref().map(|s| (s.version, s.data.len())), o.short())),
        }
        let meta = h.meta(c.id)?;
        if meta.latest != c.latest || !meta.exists {
            return v(format!("{what}: client {}: latest pointer is {}, expected {}", c.id, meta.latest, c.latest));
        }
        match (&c.snapshot, &meta.snap) {
            (None, None) => {}
            (Some(x), Some(y)) if x.version == y.version && x.since == y.since && x.ts == y.ts => {}
            (x, y) => return v(format!("{what}: client {}: snapshot bookkeeping expected {:?}, found {y:?}", c.id, x.as_ref().map(|x| (x.version, x.since, x.ts)))),
        }
    }
    for a in &exp.absent {
        match h.drv.get_child(*a, Uuid::nil()) {
            Outcome::NoSuchClient | Outcome::NotFound => {}
            o => return v(format!("{what}: client {a} had no versions in the directory, yet the server answers {}", o.short())),
        }
        // "absent" covers a client record without versions (left by a crash between the creation
        // of a client and its first version): it must still be exactly that
        let meta = h.meta(*a)?;
        if meta.exists {
            if !meta.latest.is_nil() || meta.snap.is_some() {
                return v(format!("{what}: client {a} had a record without versions or snapshot in the directory; now it shows latest {} and snapshot {:?}", meta.latest, meta.snap));
            }
            h.model.client_mut(*a).exists = true;
            st.label("c19:empty-client-record");
        }
    }
    // 2. new versions can be appended to the existing chains
    let mut or = Oracles::default();
    or.c01 = true;
    or.c02 = true;
    or.c10 = true;
    or.c11 = true;
    h.or = or;
    let mut quiet = Stats::default();
    quiet.frozen = true;
    let mut appended_old = false;
    for (i, op) in xc.continuation.iter().enumerate() {
        if matches!(op, Op::AgeSnapshot { .. }) {
            continue;
        }
        let had = op.client().map(|c| !h.model.client(h.clients[c as usize % h.clients.len()]).chain.is_empty()).unwrap_or(false);
        let n0 = h.steps.len();
        h.step(i, op, &mut quiet).map_err(|f| match f {
            Fail::Violation(m) => Fail::Violation(format!("{what}: continuing on the old database: {m}")),
            o => o,
        })?;
        if had && h.steps.len() > n0 && matches!(h.steps.last().unwrap().outcome, Outcome::Accepted { .. }) {
            appended_old = true;
        }
    }
    let clients = h.clients.clone();
    for c in clients {
        h.c01_walk(9000, c, &mut quiet).map_err(|f| match f {
            Fail::Violation(m) => Fail::Violation(format!("{what}: after the continuation: {m}")),
            o => o,
        })?;
    }
    st.label(&format!("c19:{}", exp.variant));
    let rich = exp.clients.iter().any(|c| c.snapshot.is_some() && c.chain.len() >= 3);
    if rich && appended_old {
        let shape: Vec<String> = h.steps.iter().map(|s| format!("{}:{}", s.op.kind(), s.outcome.class())).collect();
        st.nontrivial(&("c19", xc.fixture.clone(), xc.via, shape));
    }
    st.sample(|| serde_json::json!({"case": xc, "clients_in_fixture": exp.clients.len()}));
    Ok(())
}

fn xcase(fixtures: Vec<String>, max_ops: usize) -> BoxedStrategy<XCase> {
    let mut p = GenParams::default();
    p.max_clients = 4;
    p.max_ops = max_ops;
    p.min_ops = 1;
    p.w = [50, 10, 25, 5, 8, 0];
    p.av_latest_pct = 80;
    p.nonnil_base_pct = 0;
    (prop::sample::select(fixtures), prop_oneof![2 => Just(Via::Lib), 1 => Just(Via::Http)], proptest::collection::vec(case::op(4, &p), 1..=max_ops))
        .prop_map(|(fixture, via, continuation)| XCase { fixture, via, continuation })
        .boxed()
}

pub fn run(tier: Tier, seed: u64) -> Report {
    let mut rep = Report::new(
        "C19",
        tier,
        seed,
        "exploration",
        "a committed corpus of data directories written by the pinned tree (generated by `tcss-verif mkfixtures` from histories over several clients with nil and non-nil bases, replaced and aged snapshots, conflicts, payloads up to 70 KB in all byte classes; variants: closed cleanly, killed right after a commit reached the write-ahead log, killed while writing frames, killed in mid-checkpoint), each with its expected logical content. Every fixture is opened (scratch copy) by the current code: the protocol walk from each base, GetSnapshot and the client bookkeeping must equal the expected content; then a generated continuation (appends to the old chains, new snapshots, new clients, reopen points) must behave per the model initialised from the expected content. Non-trivial: fixture with a snapshot and >=3 versions and a continuation with an accepted AddVersion on an old chain; distinct by (fixture, entry, continuation outcome shape).",
    );
    rep.assume("the corpus was written once by the pinned tree and is never regenerated by a check; crash variants record what the pinned code itself recovers from the image");
    let fixtures = list_fixtures();
    if fixtures.is_empty() {
        rep.inconclusive.push("no fixtures found under /verif/fixtures".into());
        return rep;
    }
    let r = engine::replay_dir::<XCase, _>("C19", "fixture", check);
    rep.absorb("replay-tier", r);
    if rep.failed() {
        return rep;
    }
    // every fixture, both entries, a fixed continuation
    let d = |s: u32| BytesSpec { len: 6, class: 2, seed: s };
    let fixed: Vec<XCase> = fixtures
        .iter()
        .flat_map(|f| {
            [Via::Lib, Via::Http].into_iter().map(move |via| XCase {
                fixture: f.clone(),
                via,
                continuation: vec![
                    Op::AddVersion { c: 0, parent: IdRef::Latest(0), data: d(1) },
                    Op::AddVersion { c: 0, parent: IdRef::Ancestor(0, 1), data: d(2) },
                    Op::AddSnapshot { c: 0, version: IdRef::Latest(0), data: d(3) },
                    Op::Reopen,
                    Op::AddVersion { c: 1, parent: IdRef::Latest(1), data: d(4) },
                    Op::AddVersion { c: 3, parent: IdRef::Nil, data: d(5) },
                    Op::GetSnapshot { c: 1 },
                ],
            })
        })
        .collect();
    let r = engine::enumerate("C19", "fixture", fixed, check);
    rep.absorb("every-fixture-fixed-continuation", r);
    if rep.failed() {
        return rep;
    }
    let max = tier.pick(12, 40);
    let r = engine::explore("C19", "fixture", seed, tier.pick(5000, 40_000), || xcase(fixtures.clone(), max), check);
    rep.absorb("generated-continuations", r);
    rep
}

pub fn replay(kind: &str, case_json: &Value, st: &mut Stats) -> CheckResult {
    match kind {
        "fixture" => check(&serde_json::from_value(case_json.clone()).map_err(|e| Fail::Inconclusive(format!("bad replay file: {e}")))?, st),
        _ => Err(Fail::Inconclusive(format!("unknown replay kind {kind}"))),
    }
}

//! C03 - concurrent requests for one client behave as if executed one at a time.
//! Schedules are owned by the harness (sched.rs); the oracle is linearizability against the
//! reference model plus final-state agreement.

use crate::case::{self, BytesSpec, Case, Cfg, GenParams, Op};
use crate::driver::{hash_bytes, Backend, Driver, Outcome, Stores, TempDir, Via};
use crate::engine::{self, CheckResult, Fail, Report, Stats, Tier};
use crate::hist::{client_meta, Hist, Oracles};
use crate::model::{allowed_urgency, AvPred, GcPred, MClient, SnapPred};
use crate::sched::{drive, Gates, Msg, RunLog, SchedStorage, SchedulerCfg};
use proptest::prelude::*;
use serde::{Deserialize, Serialize};
use serde_json::Value;
use std::sync::atomic::Ordering;
use std::sync::{Arc, Mutex};
use std::time::Duration;
use taskchampion_sync_server_core::{InMemoryStorage, Storage};
use taskchampion_sync_server_storage_sqlite::SqliteStorage;
use uuid::Uuid;

#[derive(Clone, Copy, Debug, Serialize, Deserialize, PartialEq, Eq, Hash)]
pub enum Conf {
    Mem,
    /// one SqliteStorage object shared by all requests
    Sqlite1,
    /// one SqliteStorage object per request thread, all on one directory
    SqliteN,
}

#[derive(Clone, Debug, Serialize, Deserialize, PartialEq, Eq, Hash)]
pub enum BId {
    Nil,
    Latest,
    /// k versions before the latest (clamped to the chain)
    Ancestor(u8),
    Fresh(u32),
}

#[derive(Clone, Debug, Serialize, Deserialize, PartialEq, Eq, Hash)]
pub enum BReq {
    AddVersion { parent: BId, data: BytesSpec },
    GetChild { parent: BId },
    AddSnapshot { version: BId, data: BytesSpec },
    GetSnapshot,
}

impl BReq {
    fn kind(&self) -> &'static str {
        match self {
            BReq::AddVersion { .. } => "AddVersion",
            BReq::GetChild { .. } => "GetChild",
            BReq::AddSnapshot { .. } => "AddSnapshot",
            BReq::GetSnapshot => "GetSnapshot",
        }
    }
}

#[derive(Clone, Debug, Serialize, Deserialize, PartialEq, Eq, Hash)]
pub struct CCase {
    pub conf: Conf,
    pub via: Via,
    /// sequential history of client 0 executed first (empty = a client the server has never seen)
    pub prefix: Vec<Op>,
    pub cfg: Cfg,
    /// per thread: the requests it issues one after the other, all for client 0
    pub batch: Vec<Vec<BReq>>,
    pub choices: Vec<u16>,
    pub probes: Vec<bool>,
    /// per thread: true = the thread's requests are a second client's (client 1 of the prefix);
    /// empty = all threads act for client 0
    #[serde(default)]
    pub second: Vec<bool>,
}

fn v<T>(m: String) -> Result<T, Fail> {
    Err(Fail::Violation(m))
}

/// What one execution of a case produced.
pub struct Exec {
    pub log: RunLog,
    /// per thread, per request: (resolved id argument, payload, outcome)
    pub results: Vec<Vec<(Uuid, Arc<Vec<u8>>, Outcome)>>,
    pub start: MClient,
    /// the second client's model before the batch (only with `CCase::second`)
    pub start2: MClient,
    pub hist: Hist,
}

/// Run the case once under the given schedule.
pub fn execute(cc: &CCase) -> Result<Exec, Fail> {
    let n = cc.batch.len();
    let (gates, rx) = Gates::new(n + 1);
    let sv = |e: anyhow::Error| Fail::Violation(format!("opening storage: {e:#}"));
    // shared backend
    let dir = if cc.conf == Conf::Mem { None } else { Some(TempDir::new("c03")) };
    let mem: Arc<dyn Storage> = Arc::new(InMemoryStorage::new());
    let shared_sqlite: Option<Arc<dyn Storage>> = match cc.conf {
        Conf::Sqlite1 => Some(Arc::new(SqliteStorage::new(dir.as_ref().unwrap().path()).map_err(sv)?)),
        _ => None,
    };
    let inner_for = |_t: usize| -> anyhow::Result<Arc<dyn Storage>> {
        Ok(match cc.conf {
            Conf::Mem => mem.clone(),
            Conf::Sqlite1 => shared_sqlite.clone().unwrap(),
            Conf::SqliteN => Arc::new(SqliteStorage::new(dir.as_ref().unwrap().path())?),
        })
    };
    let backend = if cc.conf == Conf::Mem { Backend::Mem } else { Backend::Sqlite };
    // prefix: sequential, free running, through an ordinary driver on the same backend
    let two = cc.second.iter().any(|b| *b);
    let pcase = Case { cfg: cc.cfg.clone(), salt: 3, nclients: if two { 2 } else { 1 }, ops: cc.prefix.clone() };
    let inner0 = inner_for(n).map_err(sv)?;
    let probe0 = inner0.clone();
    let drv0 = Driver::with_factory(backend, cc.via, &cc.cfg, None, Box::new(move || Ok(Stores { served: inner0.clone(), probe: probe0.clone() })), None).map_err(sv)?;
    let mut hist = Hist::with_driver(&pcase, drv0, Oracles::default());
    let mut quiet = Stats::default();
    quiet.frozen = true;
    for (i, op) in cc.prefix.iter().enumerate() {
        if matches!(op, Op::Reopen) {
            continue;
        }
        hist.step(i, op, &mut quiet)?;
    }
    let c = hist.clients[0];
    if cc.via == Via::Lib && !hist.model.client(c).exists {
        // library entry: the client record is created by the embedding application first
        // (separate, acknowledged set-up step)
        (|| -> anyhow::Result<()> {
            let mut t = hist.drv.storage.txn(c)?;
            t.new_client(Uuid::nil())?;
            t.commit()
        })()
        .map_err(|e| Fail::Violation(format!("creating the client record: {e:#}")))?;
        hist.model.client_mut(c).exists = true;
    }
    let c2 = if two { hist.clients[1] } else { c };
    if two && cc.via == Via::Lib && !hist.model.client(c2).exists {
        (|| -> anyhow::Result<()> {
            let mut t = hist.drv.storage.txn(c2)?;
            t.new_client(Uuid::nil())?;
            t.commit()
        })()
        .map_err(|e| Fail::Violation(format!("creating the client record: {e:#}")))?;
        hist.model.client_mut(c2).exists = true;
    }
    let start = hist.model.client(c);
    let start2 = hist.model.client(c2);
    let resolve_in = |start: &MClient, b: &BId| -> Uuid {
        match b {
            BId::Nil => Uuid::nil(),
            BId::Latest => start.latest(),
            BId::Ancestor(k) => {
                let len = start.chain.len();
                if len == 0 {
                    Uuid::nil()
                } else {
                    start.chain[len - 1 - (*k as usize).min(len - 1)].id
                }
            }
            BId::Fresh(l) => case::fresh_uuid(300 + *l),
        }
    };
    // one driver per request thread, each over its own scheduling wrapper
    let results: Arc<Mutex<Vec<Vec<(Uuid, Arc<Vec<u8>>, Outcome)>>>> = Arc::new(Mutex::new(vec![vec![]; n]));
    gates.free_run.store(false, Ordering::SeqCst);
    let mut joins = vec![];
    for t in 0..n {
        let inner = inner_for(t).map_err(sv)?;
        let wrapped: Arc<dyn Storage> = Arc::new(SchedStorage { release_on_commit: cc.conf != Conf::Mem, tid: t, inner: inner.clone(), gates: gates.clone() });
        let is_second = cc.second.get(t).copied().unwrap_or(false);
        let c = if is_second { c2 } else { c };
        let resolve = |b: &BId| resolve_in(if is_second { &start2 } else { &start }, b);
        let reqs: Vec<(BReq, Uuid, Arc<Vec<u8>>)> = cc.batch[t]
            .iter()
            .map(|r| match r {
                BReq::AddVersion { parent, data } => (r.clone(), resolve(parent), Arc::new(data.expand())),
                BReq::GetChild { parent } => (r.clone(), resolve(parent), Arc::new(vec![])),
                BReq::AddSnapshot { version, data } => (r.clone(), resolve(version), Arc::new(data.expand())),
                BReq::GetSnapshot => (r.clone(), Uuid::nil(), Arc::new(vec![])),
            })
            .collect();
        let gates2 = gates.clone();
        let results2 = results.clone();
        let via = cc.via;
        let cfg = cc.cfg.clone();
        joins.push(std::thread::spawn(move || {
            let w2 = wrapped.clone();
            let i2 = inner.clone();
            let drv = Driver::with_factory(backend, via, &cfg, None, Box::new(move || Ok(Stores { served: w2.clone(), probe: i2.clone() })), None);
            let mut drv = match drv {
                Ok(d) => d,
                Err(e) => {
                    results2.lock().unwrap()[t].push((Uuid::nil(), Arc::new(vec![]), Outcome::Error { what: format!("driver: {e:#}") }));
                    gates2.send(Msg::Done(t));
                    return;
                }
            };
            for (k, (r, id, data)) in reqs.into_iter().enumerate() {
                gates2.send(Msg::Invoke(t, k));
                let out = match r {
                    BReq::AddVersion { .. } => drv.add_version(c, id, &data),
                    BReq::GetChild { .. } => drv.get_child(c, id),
                    BReq::AddSnapshot { .. } => drv.add_snapshot(c, id, &data),
                    BReq::GetSnapshot => drv.get_snapshot(c),
                };
                results2.lock().unwrap()[t].push((id, data, out));
                gates2.send(Msg::Response(t, k));
            }
            gates2.send(Msg::Done(t));
            drop(drv);
        }));
    }
    let scfg = SchedulerCfg { choices: cc.choices.clone(), probes: cc.probes.clone(), probe_wait: Duration::from_millis(25), watchdog: Duration::from_secs(90) };
    let log = drive(&gates, &rx, n, &scfg);
    gates.release_all();
    if log.inconclusive.is_some() {
        // the scheduler gave up: threads that are stuck inside the server cannot be ended - give
        // them a little time and leave them behind (they hold nothing but this case's storage)
        let t0 = std::time::Instant::now();
        while t0.elapsed() < Duration::from_secs(10) && joins.iter().any(|j| !j.is_finished()) {
            std::thread::sleep(Duration::from_millis(50));
        }
        if joins.iter().any(|j| !j.is_finished()) {
            let m = log.inconclusive.clone().unwrap_or_default();
            std::mem::forget(dir);
            crate::engine::give_up("schedule", &format!("scheduler: {m}; request threads are stuck inside the server (still there 10 s after every gate was opened) - batch {:?}, configuration {:?}, via {:?}", cc.batch, cc.conf, cc.via));
        }
    }
    for j in joins {
        let _ = j.join();
    }
    let results = results.lock().unwrap().clone();
    let _keep = dir;
    // move the temp dir into the history's driver so it lives as long as the inspection
    hist.drv.dir = _keep;
    Ok(Exec { log, results, start, start2, hist })
}

/// Does `resp` fit request `req` executed on state `m`?  Returns the possible successor states.
fn lin_step(cfg: &Cfg, m: &MClient, req: &BReq, id: Uuid, data: &Arc<Vec<u8>>, resp: &Outcome, via: Via, early_record: bool, hit: &std::cell::Cell<bool>) -> Vec<MClient> {
    match (req, resp) {
        (BReq::AddVersion { .. }, Outcome::Accepted { id: nid, urgency }) => {
            if !(m.chain.is_empty() || id == m.latest()) {
                return vec![];
            }
            if nid.is_nil() || m.pos(*nid).is_some() {
                return vec![];
            }
            let allowed = allowed_urgency(cfg, m.snap.as_ref().map(|s| (s.since, s.days)));
            if !allowed.contains(urgency) {
                return vec![];
            }
            let mut n = m.clone();
            n.apply_accept(*nid, id, data.clone());
            vec![n]
        }
        (BReq::AddVersion { .. }, Outcome::Conflict { latest }) => {
            if !m.chain.is_empty() && id != m.latest() && *latest == m.latest() {
                vec![m.clone()]
            } else {
                vec![]
            }
        }
        (BReq::GetChild { .. }, Outcome::Found { id: vid, parent, data: d }) => match m.child_of(id) {
            Some(i) if m.chain[i].id == *vid && m.chain[i].parent == *parent && *m.chain[i].data == **d => vec![m.clone()],
            _ => vec![],
        },
        (BReq::GetChild { .. }, Outcome::NotFound) => {
            if m.child_of(id).is_none() && (m.chain.is_empty() || id == m.latest()) {
                vec![m.clone()]
            } else {
                vec![]
            }
        }
        (BReq::GetChild { .. }, Outcome::NoSuchClient) => {
            if !m.exists {
                vec![m.clone()]
            } else {
                vec![]
            }
        }
        (BReq::GetChild { .. }, Outcome::Gone) => {
            if m.exists && m.child_of(id).is_none() && !m.chain.is_empty() && id != m.latest() {
                vec![m.clone()]
            } else {
                vec![]
            }
        }
        (BReq::AddSnapshot { .. }, Outcome::NoSuchClient) => {
            if !m.exists {
                vec![m.clone()]
            } else {
                vec![]
            }
        }
        (BReq::AddSnapshot { .. }, Outcome::SnapshotOk) if !m.exists && early_record => {
            // known finding (see known_findings.txt): the client record made by an AddVersion
            // that is still in flight is already visible to AddSnapshot (200 instead of 404)
            hit.set(true);
            vec![m.clone()]
        }
        (BReq::AddSnapshot { .. }, Outcome::SnapshotOk) => {
            let mut rep = m.clone();
            rep.apply_snapshot(id, data.clone());
            match m.predict_add_snapshot(id) {
                SnapPred::NoSuchClient => vec![],
                SnapPred::Replace => vec![rep],
                SnapPred::Decline => vec![m.clone()],
                SnapPred::Either => vec![m.clone(), rep],
            }
        }
        (BReq::GetSnapshot, Outcome::Snapshot { id: sid, data: d }) => match &m.snap {
            Some(s) if s.version == *sid && *s.data == **d => vec![m.clone()],
            _ => vec![],
        },
        (BReq::GetSnapshot, Outcome::NoSnapshot) => {
            // through HTTP an unknown client is a 404 as well
            if m.snap.is_none() && (m.exists || via == Via::Http) {
                vec![m.clone()]
            } else {
                vec![]
            }
        }
        (BReq::GetSnapshot, Outcome::NoSuchClient) => {
            if !m.exists {
                vec![m.clone()]
            } else {
                vec![]
            }
        }
        _ => vec![],
    }
}

/// The state the storage shows after the batch, in model terms.
fn observed_final(ex: &Exec, known: &[Uuid]) -> Result<(Vec<(Uuid, Uuid, u64)>, Option<(Uuid, u64, u32)>, bool, Uuid, usize), Fail> {
    let c = ex.hist.clients[0];
    let meta = client_meta(&ex.hist.drv, c).map_err(|e| Fail::Violation(format!("reading the client record after the batch: {e:#}")))?;
    let d = ex.hist.drv.api_dump(&[c], known).map_err(|e| Fail::Violation(format!("dumping after the batch: {e:#}")))?;
    let cd = &d.clients[&c];
    // walk from the base through parent links
    let mut chain = vec![];
    let base = ex.start.chain.first().map(|v| v.parent);
    let mut p = match base {
        Some(b) => b,
        None => {
            // the chain starts with whichever acknowledged version has a parent that is not a version
            let ids: Vec<Uuid> = cd.versions.keys().copied().collect();
            cd.versions.iter().find(|(_, (par, _, _))| !ids.contains(par)).map(|(_, (par, _, _))| *par).unwrap_or(Uuid::nil())
        }
    };
    let mut guard = 0;
    while let Some(child) = cd.by_parent.get(&p) {
        let (par, h, _) = cd.versions.get(child).copied().unwrap_or((Uuid::nil(), 0, 0));
        chain.push((*child, par, h));
        p = *child;
        guard += 1;
        if guard > 1000 {
            break;
        }
    }
    let snap = meta.snap.as_ref().map(|s| (s.version, s.data.map(|d| d.0).unwrap_or(0), s.since));
    Ok((chain, snap, meta.exists, meta.latest, cd.versions.len()))
}

pub fn check(cc: &CCase, st: &mut Stats) -> CheckResult {
    let mut ex = execute(cc)?;
    if let Some(m) = &ex.log.inconclusive {
        return Err(Fail::Inconclusive(format!("scheduler: {m}")));
    }
    judge(cc, &mut ex, st)
}

fn describe(cc: &CCase, ex: &Exec) -> String {
    let mut s = format!("{:?} via {:?}, client with {} versions before the batch; ", cc.conf, cc.via, ex.start.chain.len());
    for (t, reqs) in cc.batch.iter().enumerate() {
        for (k, r) in reqs.iter().enumerate() {
            let (id, _, out) = &ex.results[t][k];
            s.push_str(&format!("[T{t}.{k} {}({id}) -> {}] ", r.kind(), out.short()));
        }
    }
    s.push_str(&format!("transactions in begin order by thread: {:?}", ex.log.blocks));
    s
}

pub fn judge(cc: &CCase, ex: &mut Exec, st: &mut Stats) -> CheckResult {
    st.check();
    let n = cc.batch.len();
    let what = describe(cc, ex);
    for t in 0..n {
        if ex.results[t].len() != cc.batch[t].len() {
            return Err(Fail::Inconclusive(format!("thread {t} did not finish its requests: {what}")));
        }
    }
    // independent clauses first
    for t in 0..n {
        for (k, (_, _, out)) in ex.results[t].iter().enumerate() {
            if out.is_error() {
                return v(format!("request T{t}.{k} was answered with a server error merely because another request overlapped it: {what}"));
            }
        }
    }
    let mut parents: Vec<Uuid> = ex.start.chain.iter().map(|v| v.parent).collect();
    let mut acked: Vec<Uuid> = vec![];
    for t in 0..n {
        for (k, (id, _, out)) in ex.results[t].iter().enumerate() {
            if let (BReq::AddVersion { .. }, Outcome::Accepted { id: nid, .. }) = (&cc.batch[t][k], out) {
                if parents.contains(id) {
                    return v(format!("two AddVersion requests were both accepted on parent {id}: {what}"));
                }
                parents.push(*id);
                acked.push(*nid);
            }
        }
    }
    // real-time precedence
    let events = ex.log.events.clone();
    let idx_of = |resp: bool, t: usize, k: usize| events.iter().position(|e| *e == (resp, t, k));
    let reqs: Vec<(usize, usize)> = (0..n).flat_map(|t| (0..cc.batch[t].len()).map(move |k| (t, k))).collect();
    let precedes = |a: (usize, usize), b: (usize, usize)| -> bool {
        match (idx_of(true, a.0, a.1), idx_of(false, b.0, b.1)) {
            (Some(ra), Some(ib)) => ra < ib,
            _ => false,
        }
    };
    // final state as the storage shows it
    let mut known: Vec<Uuid> = ex.start.chain.iter().map(|v| v.id).collect();
    known.extend(ex.start.chain.iter().map(|v| v.parent));
    known.extend(acked.iter().copied());
    for t in 0..n {
        for (id, _, _) in &ex.results[t] {
            known.push(*id);
        }
    }
    known.push(Uuid::nil());
    known.sort();
    known.dedup();
    let (chain, snap, exists, latest, stored) = observed_final(ex, &known)?;
    // search for a one-at-a-time order
    let mut order: Vec<usize> = vec![];
    let mut used = vec![false; reqs.len()];
    let mut found: Option<Vec<usize>> = None;
    let mut tried = 0usize;
    fn matches_final(m: &MClient, chain: &[(Uuid, Uuid, u64)], snap: &Option<(Uuid, u64, u32)>, exists: bool, latest: Uuid, via: Via) -> bool {
        if m.chain.len() != chain.len() {
            return false;
        }
        for (a, b) in m.chain.iter().zip(chain.iter()) {
            if a.id != b.0 || a.parent != b.1 || hash_bytes(&a.data) != b.2 {
                return false;
            }
        }
        if m.latest() != latest {
            return false;
        }
        // "client exists, empty" and "client unknown" are the same to every protocol read
        if m.exists != exists && !(via == Via::Http && m.chain.is_empty()) {
            return false;
        }
        match (&m.snap, snap) {
            (None, None) => true,
            (Some(a), Some(b)) => a.version == b.0 && hash_bytes(&a.data) == b.1 && a.since == b.2 as u64,
            _ => false,
        }
    }
    #[allow(clippy::too_many_arguments)]
    fn search(
        cc: &CCase,
        ex: &Exec,
        reqs: &[(usize, usize)],
        early: &[bool],
        hit: &std::cell::Cell<bool>,
        precedes: &dyn Fn((usize, usize), (usize, usize)) -> bool,
        used: &mut Vec<bool>,
        order: &mut Vec<usize>,
        m: &MClient,
        fin: &dyn Fn(&MClient) -> bool,
        found: &mut Option<Vec<usize>>,
        tried: &mut usize,
    ) {
        if found.is_some() {
            return;
        }
        if order.len() == reqs.len() {
            *tried += 1;
            if fin(m) {
                *found = Some(order.clone());
            }
            return;
        }
        for i in 0..reqs.len() {
            if used[i] {
                continue;
            }
            // everything that precedes i in real time must already be placed
            if (0..reqs.len()).any(|j| !used[j] && j != i && precedes(reqs[j], reqs[i])) {
                continue;
            }
            let (t, k) = reqs[i];
            let (id, data, out) = &ex.results[t][k];
            for nm in lin_step(&cc.cfg, m, &cc.batch[t][k], *id, data, out, cc.via, early[i], hit) {
                used[i] = true;
                order.push(i);
                search(cc, ex, reqs, early, hit, precedes, used, order, &nm, fin, found, tried);
                order.pop();
                used[i] = false;
                if found.is_some() {
                    return;
                }
            }
        }
    }
    // known finding: an AddSnapshot through HTTP that overlaps another thread's AddVersion for a
    // client the server has never seen may already see the client record
    const SIG: &str = "C03/http/new-client/add-snapshot-sees-client-record-of-in-flight-add-version";
    let open = crate::known::is_open(SIG);
    let early: Vec<bool> = reqs
        .iter()
        .map(|a| {
            open && cc.via == Via::Http
                && !ex.start.exists
                && matches!(cc.batch[a.0][a.1], BReq::AddSnapshot { .. })
                && reqs.iter().any(|b| b.0 != a.0 && matches!(cc.batch[b.0][b.1], BReq::AddVersion { .. }) && !precedes(*a, *b) && !precedes(*b, *a))
        })
        .collect();
    let hit = std::cell::Cell::new(false);
    let via = cc.via;
    let fin = |m: &MClient| matches_final(m, &chain, &snap, exists, latest, via);
    let start = ex.start.clone();
    let none = vec![false; reqs.len()];
    search(cc, ex, &reqs, &none, &hit, &precedes, &mut used, &mut order, &start, &fin, &mut found, &mut tried);
    if found.is_none() && early.iter().any(|e| *e) {
        search(cc, ex, &reqs, &early, &hit, &precedes, &mut used, &mut order, &start, &fin, &mut found, &mut tried);
    }
    let hit_used = found.is_some() && hit.get();
    if found.is_none() {
        // is it the responses or only the final state?
        let mut found2 = None;
        let mut t2 = 0;
        search(cc, ex, &reqs, &early, &hit, &precedes, &mut used, &mut order, &start, &|_| true, &mut found2, &mut t2);
        let why = if found2.is_some() {
            format!(
                "the responses fit a one-at-a-time order, but the state left behind does not: chain {:?}, latest {latest}, snapshot {snap:?}, {stored} version records stored",
                chain.iter().map(|c| c.0).collect::<Vec<_>>()
            )
        } else {
            "no one-at-a-time order of these requests (respecting real-time order) produces these responses".to_string()
        };
        return v(format!("{why}: {what}"));
    }
    if hit_used {
        st.label(&format!("known-finding-hit:{SIG}"));
    }
    // no acknowledged version is orphaned
    for a in &acked {
        if !chain.iter().any(|c| c.0 == *a) {
            return v(format!("acknowledged version {a} is not on the client's chain afterwards: {what}"));
        }
    }
    if stored != chain.len() {
        return v(format!("{stored} version records are stored but the chain has {} versions (orphaned records): {what}", chain.len()));
    }
    // labels
    let interleaved = {
        // a request's transactions are not contiguous in begin order
        let b = &ex.log.blocks;
        let mut seen_other_between = false;
        for t in 0..n {
            let pos: Vec<usize> = b.iter().enumerate().filter(|(_, x)| **x == t).map(|(i, _)| i).collect();
            if let (Some(f), Some(l)) = (pos.first(), pos.last()) {
                if b[*f..=*l].iter().any(|x| *x != t) {
                    seen_other_between = true;
                }
            }
        }
        seen_other_between
    };
    st.label(&format!("c03:{:?}/{:?}", cc.conf, cc.via));
    if interleaved {
        st.label("c03:transactions-interleaved");
    }
    if ex.log.probes_blocked > 0 {
        st.label("c03:probe-found-lock-held");
    }
    if ex.log.probes_admitted > 0 || ex.log.overlapping_txns {
        st.label(&format!("c03:two-transactions-open-at-once:{:?}/{:?}:admitted={}", cc.conf, cc.via, ex.log.probes_admitted));
        st.sample(|| serde_json::json!({"two_open": cc, "blocks": ex.log.blocks}));
    }
    if ex.start.chain.is_empty() {
        st.label("c03:new-client");
    }
    if interleaved || ex.log.probes_blocked > 0 {
        let kinds: Vec<Vec<&str>> = cc.batch.iter().map(|t| t.iter().map(|r| r.kind()).collect()).collect();
        st.nontrivial(&("c03", cc.conf, cc.via, kinds, ex.log.blocks.clone(), ex.start.chain.len().min(3), ex.log.probes_blocked > 0));
    }
    st.sample(|| serde_json::json!({"case": cc, "blocks": ex.log.blocks, "outcomes": ex.results.iter().map(|t| t.iter().map(|r| r.2.short()).collect::<Vec<_>>()).collect::<Vec<_>>()}));
    Ok(())
}

// ---------------------------------------------------------------------------------------------
// exhaustive enumeration of block-level schedules for a fixed batch (stateless re-execution)

/// All schedules of `base` (its own `choices` are ignored): depth-first over the decision points.
pub fn all_schedules(base: &CCase, st: &mut Stats, limit: usize) -> CheckResult {
    let mut prefix: Vec<u16> = vec![];
    let mut runs = 0usize;
    loop {
        let mut cc = base.clone();
        cc.choices = prefix.clone();
        let mut ex = execute(&cc)?;
        if let Some(m) = &ex.log.inconclusive {
            return Err(Fail::Inconclusive(format!("scheduler: {m}")));
        }
        let decisions = ex.log.decisions.clone();
        judge(&cc, &mut ex, st).map_err(|f| match f {
            Fail::Violation(m) => Fail::Violation(format!("schedule {:?}: {m}", cc.choices)),
            o => o,
        })?;
        runs += 1;
        if runs >= limit {
            return Err(Fail::Inconclusive(format!("more than {limit} schedules")));
        }
        // next schedule: bump the last decision that has an untried alternative
        let mut taken: Vec<(usize, usize)> = decisions;
        loop {
            match taken.pop() {
                None => {
                    st.label_n("c03:schedules-enumerated", runs as u64);
                    return Ok(());
                }
                Some((width, idx)) => {
                    if idx + 1 < width {
                        prefix = taken.iter().map(|(_, i)| *i as u16).collect();
                        prefix.push((idx + 1) as u16);
                        break;
                    }
                }
            }
        }
    }
}

fn bs(seed: u32) -> BytesSpec {
    BytesSpec { len: 3 + seed % 4, class: 2, seed }
}

/// Canonical batches: every unordered pair of operations, on a new and on an existing client.
pub fn canonical(tier: Tier) -> Vec<CCase> {
    let mut out = vec![];
    let ops = |existing: bool| -> Vec<BReq> {
        let mut v = vec![
            BReq::AddVersion { parent: if existing { BId::Latest } else { BId::Nil }, data: bs(1) },
            BReq::GetChild { parent: if existing { BId::Ancestor(1) } else { BId::Nil } },
            BReq::AddSnapshot { version: BId::Latest, data: bs(2) },
            BReq::GetSnapshot,
        ];
        if existing {
            // the child of the latest version (not-found until somebody appends) and a snapshot
            // of an older version (must lose against one of a newer version)
            v.push(BReq::GetChild { parent: BId::Latest });
            v.push(BReq::AddSnapshot { version: BId::Ancestor(1), data: bs(3) });
        }
        v
    };
    let prefix_existing = vec![
        Op::AddVersion { c: 0, parent: case::IdRef::Nil, data: bs(10) },
        Op::AddVersion { c: 0, parent: case::IdRef::Latest(0), data: bs(11) },
        Op::AddSnapshot { c: 0, version: case::IdRef::Ancestor(0, 1), data: bs(12) },
        Op::AddVersion { c: 0, parent: case::IdRef::Latest(0), data: bs(13) },
    ];
    for conf in [Conf::Mem, Conf::Sqlite1, Conf::SqliteN] {
        for via in [Via::Http, Via::Lib] {
            for existing in [false, true] {
                let o = ops(existing);
                for i in 0..o.len() {
                    for j in i..o.len() {
                        let mut a = o[i].clone();
                        let b = o[j].clone();
                        if i == j {
                            // two different payloads so that the winner is visible
                            if let BReq::AddVersion { data, .. } | BReq::AddSnapshot { data, .. } = &mut a {
                                data.seed += 100;
                            }
                        }
                        for probe in [false, true] {
                            // with probes: at every opportunity a thread is let into
                            // Storage::txn while another transaction is open, to test the real lock
                            if probe && !(i <= j && (i == 0 || j == 2 || tier == Tier::Thorough)) {
                                continue;
                            }
                            out.push(CCase {
                                conf,
                                via,
                                prefix: if existing { prefix_existing.clone() } else { vec![] },
                                cfg: Cfg { snapshot_days: 14, snapshot_versions: 2 },
                                batch: vec![vec![a.clone()], vec![b.clone()]],
                                choices: vec![],
                                probes: if probe { vec![true; 12] } else { vec![] }, second: vec![]
                            });
                        }
                    }
                }
                if tier == Tier::Thorough || (via == Via::Http && conf != Conf::Sqlite1) {
                    // a triple of first AddVersions, and a writer with two requests against a reader
                    let av = |s: u32| BReq::AddVersion { parent: if existing { BId::Latest } else { BId::Nil }, data: bs(s) };
                    out.push(CCase {
                        conf,
                        via,
                        prefix: if existing { prefix_existing.clone() } else { vec![] },
                        cfg: Cfg { snapshot_days: 14, snapshot_versions: 2 },
                        batch: vec![vec![av(1)], vec![av(2)], vec![av(3)]],
                        choices: vec![],
                        probes: vec![], second: vec![]
                    });
                }
            }
        }
    }
    out
}

fn bid() -> impl Strategy<Value = BId> {
    prop_oneof![4 => Just(BId::Latest), 2 => Just(BId::Nil), 2 => (0u8..4).prop_map(BId::Ancestor), 1 => (0u32..3).prop_map(BId::Fresh)]
}

fn breq() -> impl Strategy<Value = BReq> {
    prop_oneof![
        5 => (bid(), case::bytes_spec(12)).prop_map(|(parent, data)| BReq::AddVersion { parent, data }),
        2 => bid().prop_map(|parent| BReq::GetChild { parent }),
        3 => (bid(), case::bytes_spec(12)).prop_map(|(version, data)| BReq::AddSnapshot { version, data }),
        2 => Just(BReq::GetSnapshot),
    ]
}

fn ccase() -> BoxedStrategy<CCase> {
    let mut p = GenParams::default();
    p.max_clients = 1;
    p.max_ops = 8;
    p.min_ops = 0;
    p.w = [60, 0, 30, 0, 0, 5];
    p.av_latest_pct = 92;
    (
        prop_oneof![2 => Just(Conf::Mem), 2 => Just(Conf::Sqlite1), 3 => Just(Conf::SqliteN)],
        prop_oneof![3 => Just(Via::Http), 1 => Just(Via::Lib)],
        prop_oneof![2 => Just(None), 3 => case::case(&p).prop_map(Some)],
        proptest::collection::vec(proptest::collection::vec(breq(), 1..=2), 2..=3),
        proptest::collection::vec(0u16..4, 0..24),
        proptest::collection::vec(prop::bool::weighted(0.15), 0..6),
    )
        .prop_map(|(conf, via, prefix, batch, choices, probes)| {
            let (prefix, cfg) = match prefix {
                None => (vec![], Cfg { snapshot_days: 2, snapshot_versions: 2 }),
                Some(c) => (c.ops.into_iter().filter(|o| !matches!(o, Op::Reopen)).collect(), c.cfg),
            };
            CCase { conf, via, prefix, cfg, batch, choices, probes, second: vec![] }
        })
        .boxed()
}

fn check_all_schedules(cc: &CCase, st: &mut Stats) -> CheckResult {
    all_schedules(cc, st, 5000)
}

pub fn run(tier: Tier, seed: u64) -> Report {
    let mut rep = Report::new(
        "C03",
        tier,
        seed,
        "exploration",
        "2-3 request threads (1-2 requests each, all four operations, same client, new or existing) run over the real backends behind a scheduling wrapper: a gate before every storage call, at transaction begin and at transaction drop; exactly one thread runs between gates. (a) exhaustive depth-first enumeration of all block-level schedules for the canonical batches (every unordered pair of operations on a new and on an existing client; memory, one SQLite object, one SQLite object per thread on one directory; HTTP handlers and library); (b) generated batches with generated schedules and probe steps that grant a thread at transaction begin while the lock is modelled as taken, to test the real lock; (c) several instances on one directory used in turn, operating-system schedules of 3-8 threads (memory, one SQLite object per thread, two server processes), and 2-4 instances opened at the same moment on a directory that holds no database yet. Oracle: some one-at-a-time order respecting real-time precedence yields exactly these responses (reference model) and the final chain/snapshot/record count; no error responses; no two accepts on one parent; no orphaned version. Non-trivial: a schedule in which the transactions of one request are not contiguous, or a probe that found the lock held; distinct by (configuration, entry, batch kinds, block-level schedule).",
    );
    rep.assume("schedules are controlled at the granularity of storage-trait calls; interleavings inside one storage call or inside SQLite are not controlled (a probe only checks that the backend's own lock keeps a second transaction out)");
    rep.assume("a probed thread that stays silent for 25 ms is taken to be waiting in the backend's lock");
    let r = engine::replay_dir::<CCase, _>("C03", "schedule", check);
    rep.absorb("replay-tier", r);
    let r = engine::replay_dir::<CCase, _>("C03", "all-schedules", check_all_schedules);
    rep.absorb("replay-tier-all-schedules", r);
    if rep.failed() {
        return rep;
    }
    let r = engine::enumerate("C03", "all-schedules", canonical(tier), check_all_schedules);
    rep.absorb("canonical-batches-all-schedules", r);
    if rep.failed() {
        return rep;
    }
    let r = engine::explore("C03", "schedule", seed, tier.pick(4000, 40_000), ccase, check);
    rep.absorb("generated-batches-and-schedules", r);
    if rep.failed() {
        return rep;
    }
    multi_subrun(&mut rep, tier, seed);
    if rep.failed() {
        return rep;
    }
    stress_subrun(&mut rep, tier, seed);
    rep
}

pub fn replay(kind: &str, case_json: &Value, st: &mut Stats) -> CheckResult {
    let bad = |e: serde_json::Error| Fail::Inconclusive(format!("bad replay file: {e}"));
    match kind {
        "schedule" => check(&serde_json::from_value(case_json.clone()).map_err(bad)?, st),
        "all-schedules" => check_all_schedules(&serde_json::from_value(case_json.clone()).map_err(bad)?, st),
        "instances" => check_multi(&serde_json::from_value(case_json.clone()).map_err(bad)?, st),
        "stress" => check_stress(&serde_json::from_value(case_json.clone()).map_err(bad)?, st),
        _ => Err(Fail::Inconclusive(format!("unknown replay kind {kind}"))),
    }
}

// ---------------------------------------------------------------------------------------------
// C11, overlapping half: AddSnapshot overlapping GetSnapshot and AddVersion under the scheduler

/// The C11 oracle on one scheduled execution: every GetSnapshot answer is an (id, bytes) pair
/// from one upload that was or is being accepted - never a mix, never an error - and the snapshot
/// left behind is a usable base.
pub fn c11_judge(cc: &CCase, ex: &mut Exec, st: &mut Stats) -> CheckResult {
    st.check();
    let what = describe(cc, ex);
    // uploads: the snapshot before the batch plus every AddSnapshot of the batch
    let mut pairs: Vec<(Uuid, u64)> = vec![];
    if let Some(s) = &ex.start.snap {
        pairs.push((s.version, hash_bytes(&s.data)));
    }
    for (t, reqs) in cc.batch.iter().enumerate() {
        for (k, r) in reqs.iter().enumerate() {
            if let (BReq::AddSnapshot { .. }, Some((id, data, _))) = (r, ex.results[t].get(k)) {
                pairs.push((*id, hash_bytes(data)));
            }
        }
    }
    for (t, reqs) in cc.batch.iter().enumerate() {
        for (k, r) in reqs.iter().enumerate() {
            let Some((_, _, out)) = ex.results[t].get(k) else { continue };
            if let BReq::GetSnapshot = r {
                match out {
                    Outcome::Snapshot { id, data } => {
                        if !pairs.contains(&(*id, hash_bytes(data))) {
                            return v(format!("GetSnapshot T{t}.{k} returned ({id}, {} bytes) which is not the id and bytes of one upload: {what}", data.len()));
                        }
                    }
                    Outcome::NoSnapshot | Outcome::NoSuchClient => {
                        if ex.start.snap.is_some() {
                            return v(format!("GetSnapshot T{t}.{k} answered {} although a snapshot had been accepted before: {what}", out.short()));
                        }
                    }
                    o => return v(format!("GetSnapshot T{t}.{k} overlapping AddSnapshot/AddVersion was answered {}: {what}", o.short())),
                }
            }
        }
    }
    // afterwards: the stored snapshot is one upload and a usable base
    let c = ex.hist.clients[0];
    match ex.hist.drv.get_snapshot(c) {
        Outcome::Snapshot { id, data } => {
            if !pairs.contains(&(id, hash_bytes(&data))) {
                return v(format!("after the batch GetSnapshot returns ({id}, {} bytes), not the id and bytes of one upload: {what}", data.len()));
            }
            let mut p = id;
            let mut n = 0;
            loop {
                match ex.hist.drv.get_child(c, p) {
                    Outcome::Found { id, .. } => {
                        p = id;
                        n += 1;
                        if n > 100 {
                            return v(format!("walk from the snapshot does not end: {what}"));
                        }
                    }
                    Outcome::NotFound => break,
                    o => return v(format!("after the batch, walking from snapshot version {id} was answered {} at {p}: {what}", o.short())),
                }
            }
        }
        Outcome::NoSnapshot | Outcome::NoSuchClient => {
            if ex.start.snap.is_some() {
                return v(format!("after the batch the snapshot is gone: {what}"));
            }
        }
        o => return v(format!("after the batch GetSnapshot answered {}: {what}", o.short())),
    }
    let b = &ex.log.blocks;
    let interleaved = (0..cc.batch.len()).any(|t| {
        let pos: Vec<usize> = b.iter().enumerate().filter(|(_, x)| **x == t).map(|(i, _)| i).collect();
        matches!((pos.first(), pos.last()), (Some(f), Some(l)) if b[*f..=*l].iter().any(|x| *x != t))
    });
    st.label(&format!("c11:overlap:{:?}/{:?}", cc.conf, cc.via));
    let kinds: Vec<Vec<&str>> = cc.batch.iter().map(|t| t.iter().map(|r| r.kind()).collect()).collect();
    if interleaved || b.len() >= 3 {
        st.nontrivial(&("c11-overlap", cc.conf, cc.via, kinds, b.clone(), ex.start.snap.is_some()));
    }
    Ok(())
}

fn c11_all_schedules(base: &CCase, st: &mut Stats) -> CheckResult {
    let mut prefix: Vec<u16> = vec![];
    let mut runs = 0usize;
    loop {
        let mut cc = base.clone();
        cc.choices = prefix.clone();
        let mut ex = execute(&cc)?;
        if let Some(m) = &ex.log.inconclusive {
            return Err(Fail::Inconclusive(format!("scheduler: {m}")));
        }
        let mut taken = ex.log.decisions.clone();
        c11_judge(&cc, &mut ex, st).map_err(|f| match f {
            Fail::Violation(m) => Fail::Violation(format!("schedule {:?}: {m}", cc.choices)),
            o => o,
        })?;
        runs += 1;
        if runs > 3000 {
            return Err(Fail::Inconclusive("more than 3000 schedules".into()));
        }
        loop {
            match taken.pop() {
                None => return Ok(()),
                Some((width, idx)) => {
                    if idx + 1 < width {
                        prefix = taken.iter().map(|(_, i)| *i as u16).collect();
                        prefix.push((idx + 1) as u16);
                        break;
                    }
                }
            }
        }
    }
}

fn c11_batches(tier: Tier) -> Vec<CCase> {
    let prefix_with_snap = vec![
        Op::AddVersion { c: 0, parent: case::IdRef::Nil, data: bs(10) },
        Op::AddVersion { c: 0, parent: case::IdRef::Latest(0), data: bs(11) },
        Op::AddSnapshot { c: 0, version: case::IdRef::Ancestor(0, 1), data: bs(12) },
        Op::AddVersion { c: 0, parent: case::IdRef::Latest(0), data: bs(13) },
    ];
    let prefix_no_snap = vec![Op::AddVersion { c: 0, parent: case::IdRef::Nil, data: bs(10) }, Op::AddVersion { c: 0, parent: case::IdRef::Latest(0), data: bs(11) }];
    let mut out = vec![];
    for conf in [Conf::Mem, Conf::Sqlite1, Conf::SqliteN] {
        for via in [Via::Http, Via::Lib] {
            for (pi, prefix) in [prefix_with_snap.clone(), prefix_no_snap.clone()].into_iter().enumerate() {
                let snap = |k: u8, s: u32| BReq::AddSnapshot { version: if k == 0 { BId::Latest } else { BId::Ancestor(k) }, data: bs(s) };
                let mut batches = vec![
                    vec![vec![snap(0, 20)], vec![BReq::GetSnapshot]],
                    vec![vec![snap(1, 21)], vec![BReq::GetSnapshot, BReq::GetSnapshot]],
                    vec![vec![snap(0, 22)], vec![BReq::GetSnapshot], vec![BReq::AddVersion { parent: BId::Latest, data: bs(23) }]],
                ];
                if tier == Tier::Thorough {
                    batches.push(vec![vec![snap(1, 24), snap(0, 25)], vec![BReq::GetSnapshot, BReq::GetSnapshot]]);
                    batches.push(vec![vec![snap(0, 26)], vec![snap(1, 27)], vec![BReq::GetSnapshot]]);
                }
                for (bi, batch) in batches.into_iter().enumerate() {
                    if tier == Tier::Quick && conf == Conf::Sqlite1 && (bi == 2 || pi == 1) {
                        continue;
                    }
                    out.push(CCase { conf, via, prefix: prefix.clone(), cfg: Cfg { snapshot_days: 14, snapshot_versions: 2 }, batch, choices: vec![], probes: vec![], second: vec![] });
                }
            }
        }
    }
    out
}

/// Sub-run of the C11 check: all schedules of AddSnapshot overlapping GetSnapshot (and AddVersion).
pub fn c11_overlap_subrun(rep: &mut Report, tier: Tier) {
    let r = engine::replay_dir::<CCase, _>("C11", "overlap", c11_all_schedules);
    rep.absorb("replay-tier-overlap", r);
    if rep.failed() {
        return;
    }
    let r = engine::enumerate("C11", "overlap", c11_batches(tier), c11_all_schedules);
    rep.absorb("overlapping-add-snapshot-get-snapshot-all-schedules", r);
}

pub fn c11_replay(case_json: &Value, st: &mut Stats) -> CheckResult {
    let cc: CCase = serde_json::from_value(case_json.clone()).map_err(|e| Fail::Inconclusive(format!("bad replay file: {e}")))?;
    c11_all_schedules(&cc, st)
}

// ---------------------------------------------------------------------------------------------
// Two clients at once.  Each thread speaks for one client, so what a client is answered must be
// exactly what its own requests, one after the other, would be answered with nobody else around
// (C09), and what was acknowledged to either must still be there afterwards (C07) - whatever the
// interleaving of the two clients' storage transactions, lock probes included.

pub fn two_clients_judge(cc: &CCase, ex: &mut Exec, st: &mut Stats) -> CheckResult {
    st.check();
    let what = describe(cc, ex);
    let ids = [ex.hist.clients[0], *ex.hist.clients.get(1).unwrap_or(&ex.hist.clients[0])];
    let mut finals: Vec<MClient> = vec![ex.start.clone(), ex.start2.clone()];
    for (t, reqs) in cc.batch.iter().enumerate() {
        let who = if cc.second.get(t).copied().unwrap_or(false) { 1 } else { 0 };
        let m = &mut finals[who];
        for (k, r) in reqs.iter().enumerate() {
            let Some((id, data, out)) = ex.results[t].get(k) else {
                return v(format!("request T{t}.{k} of client #{who} got no answer: {what}"));
            };
            let bad = |want: String| -> CheckResult { v(format!("client #{who}: request T{t}.{k} {}({id}) was answered {} with the other client's requests overlapping; on its own it is answered {want}: {what}", r.kind(), out.short())) };
            match r {
                BReq::AddVersion { .. } => match (m.predict_add_version(*id), out) {
                    (AvPred::Accept, Outcome::Accepted { id: nid, .. }) => m.apply_accept(*nid, *id, data.clone()),
                    (AvPred::Conflict(l), Outcome::Conflict { latest }) if *latest == l => {}
                    (p, _) => return bad(format!("{p:?}")),
                },
                BReq::GetChild { .. } => {
                    let ok = match (m.predict_get_child(*id), out) {
                        (GcPred::Found(i), Outcome::Found { id: fid, parent, data }) => *fid == m.chain[i].id && *parent == m.chain[i].parent && **data == *m.chain[i].data,
                        (GcPred::NotFound, Outcome::NotFound) | (GcPred::Gone, Outcome::Gone) | (GcPred::NoSuchClient, Outcome::NoSuchClient) => true,
                        (GcPred::NoSuchClient, Outcome::NotFound) => cc.via == Via::Http,
                        _ => false,
                    };
                    if !ok {
                        return bad(format!("{:?}", m.predict_get_child(*id)));
                    }
                }
                BReq::AddSnapshot { .. } => match (m.predict_add_snapshot(*id), out) {
                    (SnapPred::NoSuchClient, Outcome::NoSuchClient) => {}
                    (SnapPred::Replace, Outcome::SnapshotOk) => m.apply_snapshot(*id, data.clone()),
                    (SnapPred::Decline, Outcome::SnapshotOk) => {}
                    (SnapPred::Either, Outcome::SnapshotOk) => return Err(Fail::Inconclusive("base-corner snapshot in a two-client batch".into())),
                    (p, _) => return bad(format!("{p:?}")),
                },
                BReq::GetSnapshot => {
                    let ok = match (&m.snap, out) {
                        (None, Outcome::NoSnapshot) => true,
                        (None, Outcome::NoSuchClient) => !m.exists,
                        (None, Outcome::NotFound) => !m.exists && cc.via == Via::Http,
                        (Some(s), Outcome::Snapshot { id, data }) => *id == s.version && **data == *s.data,
                        _ => false,
                    };
                    if !ok {
                        return bad(format!("{:?}", m.snap.as_ref().map(|s| s.version)));
                    }
                }
            }
        }
    }
    // afterwards: everything acknowledged to either client is still served, unaltered
    for (who, m) in finals.iter().enumerate() {
        let c = ids[who];
        for (i, ver) in m.chain.iter().enumerate() {
            match ex.hist.drv.get_child(c, ver.parent) {
                Outcome::Found { id, parent, data } if id == ver.id && parent == ver.parent && *data == *ver.data => {}
                o => return v(format!("client #{who}: acknowledged version {} (position {i} of {}, parent {}) reads back as {} after the two clients' requests overlapped: {what}", ver.id, m.chain.len(), ver.parent, o.short())),
            }
        }
        if !m.chain.is_empty() {
            match ex.hist.drv.get_child(c, m.latest()) {
                Outcome::NotFound => {}
                o => return v(format!("client #{who}: at its latest version {} GetChildVersion answers {} after the batch: {what}", m.latest(), o.short())),
            }
        }
        match (&m.snap, ex.hist.drv.get_snapshot(c)) {
            (None, Outcome::NoSnapshot) | (None, Outcome::NoSuchClient) | (None, Outcome::NotFound) => {}
            (Some(s), Outcome::Snapshot { id, data }) if id == s.version && *data == *s.data => {}
            (s, o) => return v(format!("client #{who}: snapshot after the batch is {}, expected {:?}: {what}", o.short(), s.as_ref().map(|s| s.version))),
        }
    }
    let b = &ex.log.blocks;
    let interleaved = (0..cc.batch.len()).any(|t| {
        let pos: Vec<usize> = b.iter().enumerate().filter(|(_, x)| **x == t).map(|(i, _)| i).collect();
        matches!((pos.first(), pos.last()), (Some(f), Some(l)) if b[*f..=*l].iter().any(|x| *x != t))
    });
    st.label(&format!("two-clients:{:?}/{:?}{}", cc.conf, cc.via, if cc.probes.is_empty() { "" } else { "/lock-probes" }));
    let kinds: Vec<Vec<&str>> = cc.batch.iter().map(|t| t.iter().map(|r| r.kind()).collect()).collect();
    if interleaved || !cc.probes.is_empty() {
        st.nontrivial(&("two-clients", cc.conf, cc.via, kinds, b.clone(), cc.probes.len()));
    }
    Ok(())
}

fn two_clients_all_schedules(base: &CCase, st: &mut Stats) -> CheckResult {
    let mut prefix: Vec<u16> = vec![];
    let mut runs = 0usize;
    loop {
        let mut cc = base.clone();
        cc.choices = prefix.clone();
        let mut ex = execute(&cc)?;
        if let Some(m) = &ex.log.inconclusive {
            return Err(Fail::Inconclusive(format!("scheduler: {m}")));
        }
        let mut taken = ex.log.decisions.clone();
        two_clients_judge(&cc, &mut ex, st).map_err(|f| match f {
            Fail::Violation(m) => Fail::Violation(format!("schedule {:?}: {m}", cc.choices)),
            o => o,
        })?;
        runs += 1;
        if runs > 3000 {
            return Err(Fail::Inconclusive("more than 3000 schedules".into()));
        }
        loop {
            match taken.pop() {
                None => return Ok(()),
                Some((width, idx)) => {
                    if idx + 1 < width {
                        prefix = taken.iter().map(|(_, i)| *i as u16).collect();
                        prefix.push((idx + 1) as u16);
                        break;
                    }
                }
            }
        }
    }
}

fn two_clients_batches(tier: Tier) -> Vec<CCase> {
    use case::IdRef;
    let prefix_existing = vec![
        Op::AddVersion { c: 0, parent: IdRef::Nil, data: bs(10) },
        Op::AddVersion { c: 0, parent: IdRef::Latest(0), data: bs(11) },
        Op::AddVersion { c: 1, parent: IdRef::Fresh(100), data: bs(12) },
        Op::AddVersion { c: 1, parent: IdRef::Latest(1), data: bs(13) },
        Op::AddSnapshot { c: 1, version: IdRef::Ancestor(1, 1), data: bs(14) },
    ];
    let av = |p: BId, s: u32| BReq::AddVersion { parent: p, data: bs(s) };
    let mut out = vec![];
    for conf in [Conf::Mem, Conf::Sqlite1, Conf::SqliteN] {
        for via in [Via::Http, Via::Lib] {
            for existing in [false, true] {
                let first = if existing { BId::Latest } else { BId::Nil };
                let mut batches: Vec<Vec<Vec<BReq>>> = vec![
                    vec![vec![av(first.clone(), 1)], vec![av(first.clone(), 2)]],
                    vec![vec![av(first.clone(), 3), BReq::GetChild { parent: first.clone() }], vec![av(first.clone(), 4), BReq::GetSnapshot]],
                ];
                if existing {
                    batches.push(vec![vec![av(BId::Latest, 5)], vec![BReq::AddSnapshot { version: BId::Latest, data: bs(6) }, BReq::GetSnapshot]]);
                    batches.push(vec![vec![BReq::AddSnapshot { version: BId::Latest, data: bs(7) }], vec![BReq::AddSnapshot { version: BId::Latest, data: bs(8) }]]);
                    batches.push(vec![vec![BReq::GetChild { parent: BId::Ancestor(1) }, BReq::GetSnapshot], vec![av(BId::Latest, 9), BReq::AddSnapshot { version: BId::Ancestor(1), data: bs(15) }]]);
                }
                for (bi, batch) in batches.into_iter().enumerate() {
                    for probe in [false, true] {
                        if tier == Tier::Quick && conf == Conf::Sqlite1 && bi >= 2 {
                            continue;
                        }
                        out.push(CCase {
                            conf,
                            via,
                            prefix: if existing { prefix_existing.clone() } else { vec![] },
                            cfg: Cfg { snapshot_days: 14, snapshot_versions: 2 },
                            batch: batch.clone(),
                            choices: vec![],
                            probes: if probe { vec![true; 16] } else { vec![] },
                            second: vec![false, true],
                        });
                    }
                }
            }
        }
    }
    out
}

/// Sub-run of the C07 and C09 checks: all schedules of two clients' overlapping requests.
pub fn two_clients_subrun(id: &'static str, rep: &mut Report, tier: Tier) {
    let r = engine::replay_dir::<CCase, _>(id, "two-clients", two_clients_all_schedules);
    rep.absorb("replay-tier-two-clients", r);
    if rep.failed() {
        return;
    }
    let r = engine::enumerate(id, "two-clients", two_clients_batches(tier), two_clients_all_schedules);
    rep.absorb("two-clients-overlapping-all-schedules", r);
}

pub fn two_clients_replay(case_json: &Value, st: &mut Stats) -> CheckResult {
    let cc: CCase = serde_json::from_value(case_json.clone()).map_err(|e| Fail::Inconclusive(format!("bad replay file: {e}")))?;
    two_clients_all_schedules(&cc, st)
}

// ---------------------------------------------------------------------------------------------
// C01 under overlap: "the accepted versions always form a single chain" is also owed when the
// requests that were accepted overlapped in time.  All scheduler-owned interleavings of small
// batches of AddVersion requests (a new client's very first requests included); afterwards the
// chain is walked through GetChildVersion against the set of acknowledged versions.

pub fn c01_judge(cc: &CCase, ex: &mut Exec, st: &mut Stats) -> CheckResult {
    st.check();
    let what = describe(cc, ex);
    let c = ex.hist.clients[0];
    let mut accepted: Vec<(Uuid, Uuid)> = ex.start.chain.iter().map(|v| (v.id, v.parent)).collect();
    for (t, reqs) in cc.batch.iter().enumerate() {
        for (k, r) in reqs.iter().enumerate() {
            if let (BReq::AddVersion { .. }, Some((p, _, Outcome::Accepted { id, .. }))) = (r, ex.results[t].get(k)) {
                accepted.push((*id, *p));
            }
        }
    }
    if accepted.is_empty() {
        return Ok(());
    }
    for (i, a) in accepted.iter().enumerate() {
        for b in accepted.iter().skip(i + 1) {
            if a.1 == b.1 {
                return v(format!("acknowledged versions {} and {} share the parent {}: {what}", a.0, b.0, a.1));
            }
            if a.0 == b.0 {
                return v(format!("version id {} was acknowledged twice: {what}", a.0));
            }
        }
    }
    // the chain starts at the one parent that is not itself an acknowledged version
    let roots: Vec<Uuid> = accepted.iter().map(|a| a.1).filter(|p| !accepted.iter().any(|a| a.0 == *p)).collect();
    if roots.len() != 1 {
        return v(format!("the acknowledged versions do not form one chain (chain starts: {roots:?}): {what}"));
    }
    let mut p = roots[0];
    let mut seen = 0usize;
    loop {
        match ex.hist.drv.get_child(c, p) {
            Outcome::Found { id, parent, .. } => {
                if parent != p || !accepted.contains(&(id, p)) {
                    return v(format!("walking the chain: the child of {p} is reported as ({id}, parent {parent}), which was never acknowledged like that: {what}"));
                }
                seen += 1;
                if seen > accepted.len() {
                    return v(format!("walking the chain does not end: {what}"));
                }
                p = id;
            }
            Outcome::NotFound => break,
            o => return v(format!("walking the chain: GetChildVersion({p}) answered {} after {seen} of {} acknowledged versions: {what}", o.short(), accepted.len())),
        }
    }
    if seen != accepted.len() {
        return v(format!("walking the chain from {} reaches {seen} of {} acknowledged versions and then answers not-found at {p}: an acknowledged version is unreachable: {what}", roots[0], accepted.len()));
    }
    let b = &ex.log.blocks;
    st.label(&format!("c01:overlap:{:?}/{:?}", cc.conf, cc.via));
    let kinds: Vec<Vec<&str>> = cc.batch.iter().map(|t| t.iter().map(|r| r.kind()).collect()).collect();
    if b.len() >= 3 {
        st.nontrivial(&("c01-overlap", cc.conf, cc.via, kinds, b.clone(), ex.start.chain.len()));
    }
    Ok(())
}

fn c01_all_schedules(base: &CCase, st: &mut Stats) -> CheckResult {
    let mut prefix: Vec<u16> = vec![];
    let mut runs = 0usize;
    loop {
        let mut cc = base.clone();
        cc.choices = prefix.clone();
        let mut ex = execute(&cc)?;
        if let Some(m) = &ex.log.inconclusive {
            return Err(Fail::Inconclusive(format!("scheduler: {m}")));
        }
        let mut taken = ex.log.decisions.clone();
        c01_judge(&cc, &mut ex, st).map_err(|f| match f {
            Fail::Violation(m) => Fail::Violation(format!("schedule {:?}: {m}", cc.choices)),
            o => o,
        })?;
        runs += 1;
        if runs > 3000 {
            return Err(Fail::Inconclusive("more than 3000 schedules".into()));
        }
        loop {
            match taken.pop() {
                None => return Ok(()),
                Some((width, idx)) => {
                    if idx + 1 < width {
                        prefix = taken.iter().map(|(_, i)| *i as u16).collect();
                        prefix.push((idx + 1) as u16);
                        break;
                    }
                }
            }
        }
    }
}

fn c01_batches(tier: Tier) -> Vec<CCase> {
    let prefix_existing = vec![Op::AddVersion { c: 0, parent: case::IdRef::Fresh(100), data: bs(10) }, Op::AddVersion { c: 0, parent: case::IdRef::Latest(0), data: bs(11) }];
    let mut out = vec![];
    for conf in [Conf::Mem, Conf::Sqlite1, Conf::SqliteN] {
        for via in [Via::Http, Via::Lib] {
            for existing in [false, true] {
                let first = if existing { BId::Latest } else { BId::Nil };
                let av = |p: &BId, s: u32| BReq::AddVersion { parent: p.clone(), data: bs(s) };
                let mut batches = vec![
                    vec![vec![av(&first, 1)], vec![av(&first, 2)]],
                    vec![vec![av(&first, 3), av(&BId::Latest, 4)], vec![av(&first, 5)]],
                    vec![vec![av(&first, 6)], vec![av(&BId::Fresh(7), 7)]],
                ];
                if tier == Tier::Thorough || conf != Conf::Sqlite1 {
                    batches.push(vec![vec![av(&first, 8)], vec![av(&first, 9)], vec![av(&first, 10)]]);
                }
                for (bi, batch) in batches.into_iter().enumerate() {
                    for probe in [false, true] {
                        // with probes: at every opportunity a thread is let into Storage::txn while
                        // another transaction is open (the real lock decides what happens then)
                        if probe && tier == Tier::Quick && (conf == Conf::Sqlite1 || bi == 2) {
                            continue;
                        }
                        out.push(CCase { conf, via, prefix: if existing { prefix_existing.clone() } else { vec![] }, cfg: Cfg { snapshot_days: 14, snapshot_versions: 2 }, batch: batch.clone(), choices: vec![], probes: if probe { vec![true; 16] } else { vec![] }, second: vec![] });
                    }
                }
            }
        }
    }
    out
}

/// Sub-run of the C01 check: all schedules of overlapping AddVersion requests.
pub fn c01_overlap_subrun(rep: &mut Report, tier: Tier) {
    overlap_subrun("C01", rep, tier)
}

/// The same batches and the same oracle serve C07: every acknowledged version is served, as
/// acknowledged, from its parent afterwards - none altered, replaced or dropped.
pub fn overlap_subrun(id: &'static str, rep: &mut Report, tier: Tier) {
    let r = engine::replay_dir::<CCase, _>(id, "overlap", c01_all_schedules);
    rep.absorb("replay-tier-overlap", r);
    if rep.failed() {
        return;
    }
    let r = engine::enumerate(id, "overlap", c01_batches(tier), c01_all_schedules);
    rep.absorb("overlapping-add-version-all-schedules", r);
}

pub fn c01_replay(case_json: &Value, st: &mut Stats) -> CheckResult {
    let cc: CCase = serde_json::from_value(case_json.clone()).map_err(|e| Fail::Inconclusive(format!("bad replay file: {e}")))?;
    c01_all_schedules(&cc, st)
}

// ---------------------------------------------------------------------------------------------
// A slow storage: another connection holds the database's write lock for a real stretch of time
// (fractions of the lock-wait budget, and a little more than it) while an AddVersion that must be
// accepted is in flight.  Whatever the server answers - accepted after the wait, or a server
// error because the lock never came - the chain afterwards holds exactly the acknowledged
// versions: a request answered with an error has stored nothing, also not a little later.
// Time is only the stimulus here; no answer is judged by how long it took.

#[derive(Clone, Debug, Serialize, Deserialize, PartialEq, Eq, Hash)]
pub struct SlowCase {
    pub hold_ms: u32,
    /// through a real socket server instead of the in-process service
    pub sock: bool,
    /// the slowed request is the client's very first
    pub first: bool,
    pub salt: u32,
}

pub fn check_slow_lock(sc: &SlowCase, st: &mut Stats) -> CheckResult {
    let dir = TempDir::new("c01w");
    let dpath = dir.path().to_path_buf();
    let cfg = Cfg::default();
    let mut drv = Driver::with_factory(Backend::Sqlite, Via::Http, &cfg, None, crate::driver::sqlite_factory(dpath.clone()), None).map_err(|e| Fail::Violation(format!("opening storage: {e:#}")))?;
    drv.db_path = Some(dpath.clone());
    let mut _srv = None;
    if sc.sock {
        let ws = taskchampion_sync_server::WebServer::new(crate::driver::server_config(&cfg), None, crate::driver::ArcStorage(drv.storage.clone()));
        let srv = crate::sock::SockServer::start_workers(ws, 2).map_err(|e| Fail::Inconclusive(format!("cannot start a socket server: {e:#}")))?;
        let addr = srv.addr;
        _srv = Some(srv);
        drv.ext = Some(Box::new(move |r: &crate::driver::HttpReq| -> crate::driver::HttpResp {
            match crate::sock::exchange(addr, r, crate::sock::Encoding::ContentLength, &[], Duration::from_secs(120)) {
                Ok(resp) => resp,
                Err(e) => crate::driver::HttpResp { status: 0, crashed: Some(format!("no response: {e:?}")), ..Default::default() },
            }
        }));
    }
    let what = format!("write lock held by another connection for {} ms while an AddVersion on the client's {} is in flight ({})", sc.hold_ms, if sc.first { "empty chain" } else { "latest version" }, if sc.sock { "socket" } else { "in process" });
    let c = case::client_uuid(sc.salt, 0);
    let other = case::client_uuid(sc.salt, 1);
    let mut acked: Vec<Uuid> = vec![];
    if !matches!(drv.add_version(other, Uuid::nil(), b"another client"), Outcome::Accepted { .. }) {
        return v(format!("{what}: the set-up request of another client was not accepted"));
    }
    if !sc.first {
        match drv.add_version(c, Uuid::nil(), b"one") {
            Outcome::Accepted { id, .. } => acked.push(id),
            o => return v(format!("{what}: the first AddVersion was answered {}", o.short())),
        }
    }
    let (tx, rx) = std::sync::mpsc::channel::<Result<(), String>>();
    let hp = dpath.join("taskchampion-sync-server.sqlite3");
    let hold = sc.hold_ms as u64;
    let holder = std::thread::spawn(move || {
        let run = || -> Result<rusqlite::Connection, String> {
            let con = rusqlite::Connection::open(hp).map_err(|e| e.to_string())?;
            con.busy_timeout(Duration::from_secs(30)).map_err(|e| e.to_string())?;
            con.execute_batch("BEGIN IMMEDIATE").map_err(|e| e.to_string())?;
            Ok(con)
        };
        match run() {
            Ok(con) => {
                let _ = tx.send(Ok(()));
                std::thread::sleep(Duration::from_millis(hold));
                let _ = con.execute_batch("ROLLBACK");
            }
            Err(e) => {
                let _ = tx.send(Err(e));
            }
        }
    });
    match rx.recv_timeout(Duration::from_secs(60)) {
        Ok(Ok(())) => {}
        Ok(Err(e)) => return Err(Fail::Inconclusive(format!("{what}: the lock holder could not take the lock: {e}"))),
        Err(_) => return Err(Fail::Inconclusive(format!("{what}: the lock holder did not start"))),
    }
    let t0 = std::time::Instant::now();
    let parent = acked.last().copied().unwrap_or(Uuid::nil());
    let out = drv.add_version(c, parent, b"two");
    let waited = t0.elapsed();
    let _ = holder.join();
    // whatever the server may still have in hand gets time to finish: the lock-wait budget
    // and a margin, counted from the start of the request
    let settle = Duration::from_millis(7000);
    if t0.elapsed() < settle {
        std::thread::sleep(settle - t0.elapsed());
    }
    st.check();
    if matches!(out, Outcome::Refused { status: 0 }) {
        return Err(Fail::Inconclusive(format!("{what}: the socket exchange produced no response")));
    }
    match &out {
        Outcome::Accepted { id, .. } => acked.push(*id),
        Outcome::Conflict { .. } => return v(format!("{what}: answered with a conflict although the parent was the client's latest version and no other request for the client was made")),
        _ => {}
    }
    let probe = SqliteStorage::new(&dpath).map_err(|e| Fail::Violation(format!("{what}: opening storage afterwards: {e:#}")))?;
    let sv = |e: anyhow::Error| Fail::Violation(format!("{what}: reading the chain afterwards: {e:#}"));
    let mut chain = vec![];
    {
        let mut p = Uuid::nil();
        let mut t = probe.txn(c).map_err(sv)?;
        while let Some(ver) = t.get_version_by_parent(p).map_err(sv)? {
            chain.push(ver.version_id);
            p = ver.version_id;
            if chain.len() > 1000 {
                break;
            }
        }
    }
    if chain != acked {
        return v(format!("{what}: the request was answered {} after {} ms; afterwards the chain from nil holds {} version(s) {:?} but the acknowledged ones are {:?}", out.short(), waited.as_millis(), chain.len(), chain, acked));
    }
    // the latest acknowledged version has no child, and the next upload on it is accepted
    let latest = acked.last().copied().unwrap_or(Uuid::nil());
    match drv.get_child(c, latest) {
        Outcome::NotFound | Outcome::NoSuchClient => {}
        o => return v(format!("{what}: the request was answered {}; GetChildVersion on the latest acknowledged version {latest} then answered {}", out.short(), o.short())),
    }
    match drv.add_version(c, latest, b"three") {
        Outcome::Accepted { .. } => {}
        o => return v(format!("{what}: the request was answered {}; the next AddVersion on the latest acknowledged version {latest} was answered {}", out.short(), o.short())),
    }
    st.label(&format!("c01:slow-lock:{}", out.class()));
    if waited >= Duration::from_millis(500) {
        st.nontrivial(&("c01-slow", sc.hold_ms, sc.sock, sc.first, out.class()));
    }
    Ok(())
}

pub fn slow_lock_subrun(rep: &mut Report, tier: Tier) {
    let r = engine::replay_dir::<SlowCase, _>("C01", "slow-lock", check_slow_lock);
    rep.absorb("replay-tier-slow-lock", r);
    if rep.failed() {
        return;
    }
    let mut cases = vec![];
    let holds: Vec<u32> = match tier {
        Tier::Quick => vec![700, 1900, 2600, 3300, 3700, 4100, 4300, 4500, 4700, 4900, 5200, 5600, 6400],
        Tier::Thorough => (2..=44).map(|k| k * 150).collect(),
    };
    for (i, h) in holds.iter().enumerate() {
        cases.push(SlowCase { hold_ms: *h, sock: i % 2 == 1, first: i % 3 == 2, salt: 11 + i as u32 });
        if tier == Tier::Thorough {
            cases.push(SlowCase { hold_ms: *h, sock: i % 2 == 0, first: i % 3 == 0, salt: 511 + i as u32 });
        }
    }
    let mut r = engine::enumerate("C01", "slow-lock", cases, check_slow_lock);
    r.exhaustive = false;
    rep.absorb("slow-storage-lock-held-for-seconds", r);
}

pub fn slow_lock_replay(case_json: &Value, st: &mut Stats) -> CheckResult {
    let sc: SlowCase = serde_json::from_value(case_json.clone()).map_err(|e| Fail::Inconclusive(format!("bad replay file: {e}")))?;
    check_slow_lock(&sc, st)
}

// ---------------------------------------------------------------------------------------------
// Stress complement: schedules the operating system picks (sound, not complete, and a failure
// need not reproduce from its replay file - the saved case re-runs the same scripts)

#[derive(Clone, Debug, Serialize, Deserialize, PartialEq, Eq, Hash)]
pub enum StressOp {
    /// AddVersion on what this thread believes is the latest version
    Append(u8),
    /// AddVersion on the nil parent (a first request if the client is new)
    First(u8),
    SnapshotLatest(u8),
    GetSnapshot(u8),
    GetChildNil(u8),
}

#[derive(Clone, Debug, Serialize, Deserialize, PartialEq, Eq, Hash)]
pub struct StressCase {
    /// 0 = memory (in process), 1 = SQLite one object per thread (in process), 2 = two real server processes on one directory,
    /// 3 = SQLite one object per thread, each opened by its thread at the same moment on a directory that holds no database yet
    pub setup: u8,
    pub nclients: u8,
    pub scripts: Vec<Vec<StressOp>>,
    pub salt: u32,
}

fn stress_op(n: u8) -> impl Strategy<Value = StressOp> {
    prop_oneof![
        6 => (0..n).prop_map(StressOp::Append),
        3 => (0..n).prop_map(StressOp::First),
        2 => (0..n).prop_map(StressOp::SnapshotLatest),
        1 => (0..n).prop_map(StressOp::GetSnapshot),
        1 => (0..n).prop_map(StressOp::GetChildNil),
    ]
}

fn stress_case(max_ops: usize) -> BoxedStrategy<StressCase> {
    (prop_oneof![3 => 0u8..3, 1 => Just(3u8)], 1u8..4, any::<u32>())
        .prop_flat_map(move |(setup, n, salt)| (Just(setup), Just(n), Just(salt), proptest::collection::vec(proptest::collection::vec(stress_op(n), 4..=max_ops), 3..=8)))
        .prop_map(|(setup, nclients, salt, scripts)| StressCase { setup, nclients, scripts, salt: salt & 0xFFFF })
        .boxed()
}

/// Only the overlapping first starts: two to four instances, a handful of first requests each.
fn first_start_case() -> BoxedStrategy<StressCase> {
    (1u8..3, any::<u32>())
        .prop_flat_map(move |(n, salt)| (Just(n), Just(salt), proptest::collection::vec(proptest::collection::vec(stress_op(n), 3..=6), 2..=4)))
        .prop_map(|(nclients, salt, scripts)| StressCase { setup: 3, nclients, scripts, salt: salt & 0xFFFF })
        .boxed()
}

pub fn check_stress(sc: &StressCase, st: &mut Stats) -> CheckResult {
    use crate::sock::{exchange, Encoding, SockError};
    let clients: Vec<Uuid> = (0..sc.nclients).map(|i| case::client_uuid(sc.salt, i)).collect();
    let cfg = Cfg { snapshot_days: 14, snapshot_versions: 3 };
    let dir = TempDir::new("c03s");
    let sv = |e: anyhow::Error| Fail::Violation(format!("opening storage: {e:#}"));
    let mem: Arc<dyn Storage> = Arc::new(InMemoryStorage::new());
    // the two real processes, if asked for
    let mut procs = vec![];
    if sc.setup == 2 {
        let Some(bin) = crate::props::binary::server_bin() else { return Err(Fail::Inconclusive("the server executable has not been built".into())) };
        for _ in 0..2 {
            let mut started = None;
            for _ in 0..4 {
                let port = crate::props::binary::free_port("127.0.0.1").ok_or_else(|| Fail::Inconclusive("no loopback port".into()))?;
                let launch = crate::props::binary::Launch {
                    args: vec!["--data-dir".into(), dir.path().to_string_lossy().into_owned(), "--listen".into(), format!("127.0.0.1:{port}"), "--snapshot-versions".into(), "3".into()],
                    env: vec![],
                    connect: vec![format!("127.0.0.1:{port}").parse().unwrap()],
                    cwd: None,
                    dir_arg: None, listen: vec![],
                };
                if let Ok(p) = crate::props::binary::spawn(&bin, &launch) {
                    started = Some(p);
                    break;
                }
            }
            match started {
                Some(p) => procs.push(p),
                None => return Err(Fail::Inconclusive("cannot start the server executable".into())),
            }
        }
    }
    let addrs: Vec<std::net::SocketAddr> = procs.iter().map(|p| p.addrs[0]).collect();
    type Rec = (usize, StressOp, Uuid, Outcome, std::time::Duration);
    let results: Arc<Mutex<Vec<Rec>>> = Arc::new(Mutex::new(vec![]));
    let start_gate = Arc::new(std::sync::Barrier::new(sc.scripts.len()));
    let open_failures = Arc::new(std::sync::atomic::AtomicUsize::new(0));
    let mut joins = vec![];
    for (t, script) in sc.scripts.iter().cloned().enumerate() {
        let clients = clients.clone();
        let results = results.clone();
        let gate = start_gate.clone();
        let cfg = cfg.clone();
        let addrs = addrs.clone();
        let inner: Option<Arc<dyn Storage>> = match sc.setup {
            0 => Some(mem.clone()),
            1 => Some(Arc::new(SqliteStorage::new(dir.path()).map_err(sv)?)),
            _ => None,
        };
        if sc.setup > 3 {
            return Err(Fail::Inconclusive("unknown setup".into()));
        }
        let backend = if sc.setup == 0 { Backend::Mem } else { Backend::Sqlite };
        let dpath = dir.path().to_path_buf();
        let late_open = sc.setup == 3;
        let salt = sc.salt;
        let open_failures = open_failures.clone();
        joins.push(std::thread::spawn(move || {
            let mut inner = inner;
            if late_open {
                // overlapping first starts: every thread opens the (not yet existing) database
                // itself, all at the same moment; a start that fails is tried again, as an
                // operator would (two processes creating the file at once may find it locked)
                gate.wait();
                // ... give or take a few milliseconds (steps of 100 us, fixed by the case)
                std::thread::sleep(Duration::from_micros((((salt as u64) >> (3 * (t % 5))) & 31) * 100));
                for attempt in 0..200 {
                    match SqliteStorage::new(&dpath) {
                        Ok(s) => {
                            inner = Some(Arc::new(s) as Arc<dyn Storage>);
                            break;
                        }
                        Err(_) => {
                            open_failures.fetch_add(1, std::sync::atomic::Ordering::SeqCst);
                            std::thread::sleep(Duration::from_millis(1 + attempt % 7));
                        }
                    }
                }
                if inner.is_none() {
                    return;
                }
            }
            let mut drv = inner.map(|i| {
                let i2 = i.clone();
                Driver::with_factory(backend, Via::Http, &cfg, None, Box::new(move || Ok(Stores { served: i.clone(), probe: i2.clone() })), None).expect("driver")
            });
            let mut latest = vec![Uuid::nil(); clients.len()];
            if !late_open {
                gate.wait();
            }
            for (k, op) in script.iter().enumerate() {
                let (ci, ep, id) = match op {
                    StressOp::Append(c) => (*c, crate::driver::Endpoint::AddVersion, latest[*c as usize]),
                    StressOp::First(c) => (*c, crate::driver::Endpoint::AddVersion, Uuid::nil()),
                    StressOp::SnapshotLatest(c) => (*c, crate::driver::Endpoint::AddSnapshot, latest[*c as usize]),
                    StressOp::GetSnapshot(c) => (*c, crate::driver::Endpoint::GetSnapshot, Uuid::nil()),
                    StressOp::GetChildNil(c) => (*c, crate::driver::Endpoint::GetChild, Uuid::nil()),
                };
                let c = clients[ci as usize];
                let body = vec![t as u8, k as u8, 1, 2, 3];
                let t0 = std::time::Instant::now();
                let out = match &mut drv {
                    Some(d) => match ep {
                        crate::driver::Endpoint::AddVersion => d.add_version(c, id, &body),
                        crate::driver::Endpoint::AddSnapshot => d.add_snapshot(c, id, &body),
                        crate::driver::Endpoint::GetSnapshot => d.get_snapshot(c),
                        crate::driver::Endpoint::GetChild => d.get_child(c, id),
                    },
                    None => {
                        let req = match ep {
                            crate::driver::Endpoint::AddVersion => crate::driver::req_add_version(c, id, vec![bytes::Bytes::from(body.clone())]),
                            crate::driver::Endpoint::AddSnapshot => crate::driver::req_add_snapshot(c, id, vec![bytes::Bytes::from(body.clone())]),
                            crate::driver::Endpoint::GetSnapshot => crate::driver::req_get_snapshot(c),
                            crate::driver::Endpoint::GetChild => crate::driver::req_get_child(c, id),
                        };
                        match exchange(addrs[(t + k) % addrs.len()], &req, Encoding::ContentLength, &[], Duration::from_secs(120)) {
                            Ok(r) => crate::driver::decode(ep, &r),
                            Err(SockError::NoResponse(m)) | Err(SockError::Io(m)) => Outcome::Refused { status: 0 }.clone_with(m),
                        }
                    }
                };
                match &out {
                    Outcome::Accepted { id, .. } => latest[ci as usize] = *id,
                    Outcome::Conflict { latest: l } => latest[ci as usize] = *l,
                    _ => {}
                }
                results.lock().unwrap().push((t, op.clone(), id, out, t0.elapsed()));
            }
        }));
    }
    for j in joins {
        let _ = j.join();
    }
    let results = results.lock().unwrap().clone();
    st.check();
    let what = format!("{} threads, {} clients, setup {}", sc.scripts.len(), sc.nclients, match sc.setup { 0 => "memory in process", 1 => "SQLite in process, one storage object per thread", 3 => "SQLite in process, one storage object per thread, all opened at the same moment on an empty directory", _ => "two server processes on one data directory" });
    if sc.setup == 3 && results.len() < sc.scripts.iter().map(|s| s.len()).sum::<usize>() {
        return Err(Fail::Inconclusive(format!("{what}: an instance could not be started in 200 attempts")));
    }
    if sc.setup == 3 && open_failures.load(std::sync::atomic::Ordering::SeqCst) > 0 {
        st.label("c03:stress:first-start-failed-and-retried");
    }
    // a request that waited for more than half the lock-wait budget (a busy machine): a server
    // error may then be an honest "database is locked"; everything else below still holds
    let slow = results.iter().any(|r| r.4 > Duration::from_millis(2500));
    if slow {
        st.label("c03:stress:a-request-waited-more-than-half-the-lock-budget");
    }
    if results.iter().any(|r| matches!(r.3, Outcome::Refused { status: 0 })) {
        return Err(Fail::Inconclusive(format!("{what}: a socket exchange produced no response")));
    }
    for (t, op, id, out, _) in &results {
        if out.is_error() && !slow {
            return v(format!("{what}: thread {t}: {op:?} ({id}) was answered {} although nothing but other requests was going on", out.short()));
        }
    }
    // per client: one accepted version per parent, every acknowledged version on the chain
    let probe: Arc<dyn Storage> = if sc.setup == 0 { mem.clone() } else { Arc::new(SqliteStorage::new(dir.path()).map_err(sv)?) };
    for (ci, c) in clients.iter().enumerate() {
        let mut parents = std::collections::HashSet::new();
        let mut acked = vec![];
        for (_, op, id, out, _) in &results {
            let opc = match op {
                StressOp::Append(c) | StressOp::First(c) => *c as usize,
                _ => usize::MAX,
            };
            if opc == ci {
                if let Outcome::Accepted { id: nid, .. } = out {
                    if !parents.insert(*id) {
                        return v(format!("{what}: client #{ci}: two AddVersion requests were accepted on parent {id}"));
                    }
                    acked.push(*nid);
                }
            }
        }
        let mut chain = vec![];
        let mut p = Uuid::nil();
        let mut t = probe.txn(*c).map_err(sv)?;
        while let Some(ver) = t.get_version_by_parent(p).map_err(sv)? {
            chain.push(ver.version_id);
            p = ver.version_id;
            if chain.len() > 100_000 {
                break;
            }
        }
        drop(t);
        for a in &acked {
            if !chain.contains(a) {
                return v(format!("{what}: client #{ci}: acknowledged version {a} is not on the chain afterwards (chain has {} versions, {} were acknowledged)", chain.len(), acked.len()));
            }
        }
        if chain.len() != acked.len() {
            return v(format!("{what}: client #{ci}: {} versions on the chain but {} acknowledgements", chain.len(), acked.len()));
        }
        if acked.len() >= 2 {
            st.label("c03:stress:client-with-contended-chain");
        }
    }
    let conflicts = results.iter().filter(|r| matches!(r.3, Outcome::Conflict { .. })).count();
    st.label(&format!("c03:stress:setup{}", sc.setup));
    if conflicts > 0 {
        st.nontrivial(&("c03-stress", sc.setup, sc.scripts.len(), sc.nclients, conflicts.min(20), results.len()));
    }
    Ok(())
}

pub fn stress_subrun(rep: &mut Report, tier: Tier, seed: u64) {
    let r = engine::replay_dir::<StressCase, _>("C03", "stress", check_stress);
    rep.absorb("replay-tier-stress", r);
    if rep.failed() {
        return;
    }
    let max = tier.pick(12, 50);
    // each case spawns up to 8 threads (and two processes): fewer workers than cores
    let r = engine::explore_n("C03", "stress", seed, tier.pick(60, 3000), 6, || stress_case(max), check_stress);
    rep.absorb("stress-os-schedules", r);
    if rep.failed() {
        return;
    }
    let r = engine::explore_n("C03", "stress", seed ^ 0x51, tier.pick(400, 6000), 6, first_start_case, check_stress);
    rep.absorb("overlapping-first-starts-on-an-empty-directory", r);
}

// ---------------------------------------------------------------------------------------------
// Several server instances sharing one data directory, used one after the other (no overlap):
// whatever one instance acknowledged, every other instance must serve.  Catches state kept in a
// server instance instead of the shared storage.

#[derive(Clone, Debug, Serialize, Deserialize, PartialEq, Eq, Hash)]
pub struct MCase {
    pub via: Via,
    pub instances: u8,
    /// which instance serves each op (index modulo instances)
    pub who: Vec<u8>,
    pub case: Case,
}

fn mcase(max_ops: usize) -> BoxedStrategy<MCase> {
    let mut p = GenParams::default();
    p.max_clients = 2;
    p.max_ops = max_ops;
    p.min_ops = 3;
    p.w = [50, 22, 18, 8, 2, 0];
    p.av_latest_pct = 75;
    (prop_oneof![1 => Just(Via::Lib), 1 => Just(Via::Http)], 2u8..4, proptest::collection::vec(0u8..3, max_ops + 4), case::case(&p))
        .prop_map(|(via, instances, who, case)| MCase { via, instances, who, case })
        .boxed()
}

pub fn check_multi(mc: &MCase, st: &mut Stats) -> CheckResult {
    let dir = TempDir::new("c03m");
    let dpath = dir.path().to_path_buf();
    let k = mc.instances.clamp(2, 3) as usize;
    let mk = || -> Result<Driver, Fail> {
        let mut d = Driver::with_factory(Backend::Sqlite, mc.via, &mc.case.cfg, None, crate::driver::sqlite_factory(dpath.clone()), None).map_err(|e| Fail::Violation(format!("opening storage: {e:#}")))?;
        d.db_path = Some(dpath.clone());
        Ok(d)
    };
    let mut or = Oracles::default();
    or.c01 = true;
    or.c02 = true;
    or.c08 = true;
    or.c11 = true;
    // a third of the HTTP cases: the "instances" are the worker threads of one HttpServer (each
    // with its own application instance), reached over a fresh connection per request
    let workers_mode = mc.via == Via::Http && mc.case.salt % 3 == 0;
    let mut _srv = None;
    let mut first = mk()?;
    if workers_mode {
        let ws = taskchampion_sync_server::WebServer::new(crate::driver::server_config(&mc.case.cfg), None, crate::driver::ArcStorage(first.storage.clone()));
        let srv = crate::sock::SockServer::start_workers(ws, k + 1).map_err(|e| Fail::Inconclusive(format!("cannot start a socket server: {e:#}")))?;
        let addr = srv.addr;
        _srv = Some(srv);
        first.ext = Some(Box::new(move |r: &crate::driver::HttpReq| -> crate::driver::HttpResp {
            match crate::sock::exchange(addr, r, crate::sock::Encoding::ContentLength, &[], Duration::from_secs(120)) {
                Ok(resp) => resp,
                Err(e) => crate::driver::HttpResp { status: 0, crashed: Some(format!("no response: {e:?}")), ..Default::default() },
            }
        }));
    }
    let mut h = Hist::with_driver(&mc.case, first, or);
    // the other instances, and which instance each slot holds
    let mut pool: Vec<Driver> = vec![];
    let mut pool_ids: Vec<usize> = vec![];
    for i in 1..k {
        pool.push(mk()?);
        pool_ids.push(i);
    }
    let mut current = 0usize;
    let mut quiet = Stats::default();
    quiet.frozen = true;
    let n = mc.case.ops.len();
    let mut switches = 0;
    for (idx, op) in mc.case.ops.iter().enumerate() {
        let want = if workers_mode { 0 } else { (mc.who.get(idx).copied().unwrap_or(0) as usize) % k };
        if want != current {
            let j = pool_ids.iter().position(|x| *x == want).expect("instance in pool");
            std::mem::swap(&mut h.drv, &mut pool[j]);
            pool_ids[j] = current;
            current = want;
            switches += 1;
        }
        h.step(idx, op, &mut quiet).map_err(|f| match f {
            Fail::Violation(m) => Fail::Violation(format!("{k} server instances on one data directory, used one at a time; request {idx} served by instance {current}: {m}")),
            o => o,
        })?;
        if idx + 1 == n || idx % 5 == 4 {
            let clients = h.clients.clone();
            for c in clients {
                h.c01_walk(idx, c, &mut quiet).map_err(|f| match f {
                    Fail::Violation(m) => Fail::Violation(format!("{k} server instances on one data directory, used one at a time; walking through instance {current}: {m}")),
                    o => o,
                })?;
                h.c11_walk(idx, c, &mut quiet).map_err(|f| match f {
                    Fail::Violation(m) => Fail::Violation(format!("{k} server instances on one data directory, used one at a time; through instance {current}: {m}")),
                    o => o,
                })?;
            }
        }
    }
    st.check();
    st.label(&format!("c03:instances:{k}:{:?}{}", mc.via, if workers_mode { ":workers-of-one-server" } else { "" }));
    if switches >= 2 || workers_mode {
        let shape: Vec<(u8, &'static str)> = h.steps.iter().map(|s| (mc.who.get(s.idx).copied().unwrap_or(0) % k as u8, s.outcome.class())).collect();
        st.nontrivial(&("c03-multi", mc.via, shape));
    }
    let _keep = dir;
    Ok(())
}

pub fn multi_subrun(rep: &mut Report, tier: Tier, seed: u64) {
    let r = engine::replay_dir::<MCase, _>("C03", "instances", check_multi);
    rep.absorb("replay-tier-instances", r);
    if rep.failed() {
        return;
    }
    let max = tier.pick(24, 60);
    let r = engine::explore("C03", "instances", seed, tier.pick(1500, 40_000), || mcase(max), check_multi);
    rep.absorb("several-instances-one-directory-sequential", r);
}

//! C04 (crashes lose nothing acknowledged and leave nothing half-applied) and the file-level half
//! of C05, both on top of the VFS shim (vfs.rs).

use crate::case::{self, BytesSpec, Case, GenParams, IdRef, Op};
use crate::driver::{sqlite_factory, ApiDump, Backend, Driver, Outcome, TempDir, Via};
use crate::engine::{self, CheckResult, Fail, Report, Stats, Tier};
use crate::hist::{Hist, Oracles};
use crate::model::Model;
use crate::props::fault::{copy_db, summarize};
use crate::vfs::{self, FileOp, Image, Kind, OpK, Plan};
use proptest::prelude::*;
use serde::{Deserialize, Serialize};
use serde_json::Value;
use std::collections::BTreeMap;
use uuid::Uuid;

fn v<T>(m: String) -> Result<T, Fail> {
    Err(Fail::Violation(m))
}

// ---------------------------------------------------------------------------------------------
// C04

#[derive(Clone, Debug, Serialize, Deserialize, PartialEq, Eq, Hash)]
pub struct KCase {
    pub via: Via,
    pub case: Case,
    /// bits deciding which unsynced operations survive in the generated power-loss images
    pub subsets: Vec<u32>,
    /// requests issued on the recovered database
    pub continuation: Vec<Op>,
    /// check at most this many crash points, spread over the log (0 = all)
    pub max_points: u32,
    pub point_salt: u32,
    /// thorough extras: single drops and torn last writes
    pub deep: bool,
    /// lock contention: while request number `.0` (an AddVersion; index modulo the history) is
    /// handled, the first `.1` attempts to take the database's write lock are answered "busy"
    /// (another connection holds it), then it is free again
    #[serde(default)]
    pub busy: Option<(u16, u16)>,
}

/// "client exists, empty" is identified with "client unknown" (see DESIGN.md C04).
fn normalise(mut d: ApiDump) -> ApiDump {
    for cd in d.clients.values_mut() {
        if cd.exists && cd.latest.is_nil() && cd.snapshot.is_none() && cd.versions.is_empty() && cd.by_parent.is_empty() {
            cd.exists = false;
        }
    }
    d
}

struct Recorded {
    ops: Vec<FileOp>,
    /// (first op index, one past the last) per request; request 0 is the schema set-up
    ranges: Vec<(usize, usize)>,
    /// normalised dump after each request (index 0 = after set-up)
    dumps: Vec<ApiDump>,
    models: Vec<Model>,
    clients: Vec<Uuid>,
    ids: Vec<Uuid>,
    labels: Vec<String>,
    mutating: Vec<bool>,
}

fn record_history(kc: &KCase) -> Result<Recorded, Fail> {
    let dir = TempDir::new("c04");
    let dpath = dir.path().to_path_buf();
    let rec = vfs::track(&dpath);
    let r = (|| -> Result<Recorded, Fail> {
        let mut drv = Driver::with_factory(Backend::Sqlite, kc.via, &kc.case.cfg, None, sqlite_factory(dpath.clone()), None).map_err(|e| Fail::Violation(format!("opening storage: {e:#}")))?;
        drv.db_path = Some(dpath.clone());
        // what is acknowledged must already be in the database at the moment of the
        // acknowledgement (a crash right then must not lose it): the accepted version is stored,
        // the snapshot the window rule accepts is stored
        let mut or = Oracles::default();
        or.c02 = true;
        or.c10 = true;
        let mut h = Hist::with_driver(&kc.case, drv, or);
        let mut ranges = vec![(0usize, rec.len())];
        let mut dumps = vec![];
        let mut models = vec![];
        let mut labels = vec!["set-up".to_string()];
        let mut mutating = vec![true];
        let mut quiet = Stats::default();
        quiet.frozen = true;
        rec.pause();
        dumps.push(normalise(h.drv.api_dump(&h.clients, &h.ids).map_err(|e| Fail::Violation(format!("dump: {e:#}")))?));
        models.push(h.model.clone());
        rec.resume();
        for (i, op) in kc.case.ops.iter().enumerate() {
            if matches!(op, Op::AgeSnapshot { .. }) {
                continue;
            }
            if let (Some((bi, attempts)), Op::AddVersion { c, parent, data }) = (kc.busy, op) {
                if bi as usize % kc.case.ops.len() == i {
                    let cid = h.clients[*c as usize % h.clients.len()];
                    let p = h.resolve(parent);
                    h.know(p);
                    let bytes = std::sync::Arc::new(data.expand());
                    let pred = h.model.client(cid).predict_add_version(p);
                    // like a real lock holder, a connection that stays open keeps the wal-index
                    // alive (otherwise every new connection would first have to rebuild it, which
                    // itself needs the write lock)
                    // (whatever this connection does to the files - a checkpoint when it closes -
                    // is recorded like everything else)
                    let holder = rusqlite::Connection::open(dpath.join("taskchampion-sync-server.sqlite3")).map_err(|e| Fail::Inconclusive(format!("lock holder: {e}")))?;
                    let _: i64 = holder.query_row("SELECT count(*) FROM sqlite_master", [], |r| r.get(0)).map_err(|e| Fail::Inconclusive(format!("lock holder: {e}")))?;
                    rec.set_busy(attempts as u32);
                    let s = rec.len();
                    let out = h.drv.add_version(cid, p, &bytes);
                    let hits = rec.clear_busy();
                    // the holder's close (a checkpoint, if it is the last connection) counts as part
                    // of this request's range: it changes files, not the logical state
                    drop(holder);
                    let e = rec.len();
                    rec.pause();
                    let d = normalise(h.drv.api_dump(&h.clients, &h.ids).map_err(|e| Fail::Violation(format!("dump: {e:#}")))?);
                    rec.resume();
                    let mut stop = false;
                    match &out {
                        crate::driver::Outcome::Accepted { id, .. } => {
                            if pred != crate::model::AvPred::Accept {
                                return v(format!("request {i} ({op:?}) under lock contention ({hits} busy answers) was accepted against the rule"));
                            }
                            h.know(*id);
                            h.model.client_mut(cid).apply_accept(*id, p, bytes.clone());
                        }
                        crate::driver::Outcome::Conflict { .. } => {
                            if pred == crate::model::AvPred::Accept {
                                return v(format!("request {i} ({op:?}) under lock contention ({hits} busy answers) was rejected against the rule"));
                            }
                        }
                        _ => {
                            // failed for want of the lock: fine; whatever it left is judged by the
                            // crash images below, and the history ends here
                            stop = true;
                        }
                    }
                    // the dump after an accepted version has to be taken with the new id known
                    let d = if matches!(out, crate::driver::Outcome::Accepted { .. }) {
                        rec.pause();
                        let d2 = normalise(h.drv.api_dump(&h.clients, &h.ids).map_err(|e| Fail::Violation(format!("dump: {e:#}")))?);
                        rec.resume();
                        d2
                    } else {
                        d
                    };
                    mutating.push(dumps.last() != Some(&d));
                    ranges.push((s, e));
                    dumps.push(d);
                    models.push(h.model.clone());
                    labels.push(format!("AddVersion:{}:under-lock-contention({hits} busy answers)", out.class()));
                    if stop {
                        break;
                    }
                    continue;
                }
            }
            let s = rec.len();
            let n0 = h.steps.len();
            h.step(i, op, &mut quiet).map_err(|f| match f {
                Fail::Violation(m) => Fail::Violation(format!("at the moment request {i} ({}) was acknowledged, its effect was not (or not correctly) in the database - a crash right then loses it: {m}", op.kind())),
                o => o,
            })?;
            let e = rec.len();
            rec.pause();
            let d = normalise(h.drv.api_dump(&h.clients, &h.ids).map_err(|e| Fail::Violation(format!("dump: {e:#}")))?);
            rec.resume();
            let out = if h.steps.len() > n0 { h.steps.last().unwrap().outcome.class() } else { "-" };
            if h.steps.len() > n0 && h.steps.last().unwrap().outcome.is_error() {
                return v(format!("request {i} ({op:?}) failed without any fault: {}", h.steps.last().unwrap().outcome.short()));
            }
            mutating.push(dumps.last() != Some(&d));
            ranges.push((s, e));
            dumps.push(d);
            models.push(h.model.clone());
            labels.push(format!("{}:{out}", op.kind()));
        }
        let ops = std::mem::take(&mut rec.state.lock().unwrap().ops);
        Ok(Recorded { ops, ranges, dumps, models, clients: h.clients.clone(), ids: h.ids.clone(), labels, mutating })
    })();
    vfs::untrack();
    r
}

/// Per-file durable content and the unsynced tail, kept incrementally while walking the log.
#[derive(Default, Clone)]
struct Durable {
    synced: BTreeMap<String, Vec<u8>>,
    /// unsynced operations per file, with their global index
    tail: BTreeMap<String, Vec<(usize, FileOp)>>,
}

impl Durable {
    fn apply(&mut self, idx: usize, op: &FileOp, now: &Image) {
        match &op.k {
            OpK::Create => {
                self.synced.insert(op.file.clone(), vec![]);
                self.tail.insert(op.file.clone(), vec![]);
            }
            OpK::Delete => {
                self.synced.remove(&op.file);
                self.tail.remove(&op.file);
            }
            OpK::Sync => {
                self.synced.insert(op.file.clone(), now.files.get(&op.file).cloned().unwrap_or_default());
                self.tail.insert(op.file.clone(), vec![]);
            }
            _ => self.tail.entry(op.file.clone()).or_default().push((idx, op.clone())),
        }
    }
    fn tail_len(&self) -> usize {
        self.tail.values().map(|t| t.len()).sum()
    }
    /// Image with the unsynced operations selected by `keep` applied (in order) on the synced content.
    fn image(&self, keep: &dyn Fn(usize, usize) -> bool, torn_last: bool) -> Image {
        let mut img = Image { files: self.synced.clone() };
        let mut all: Vec<&(usize, FileOp)> = self.tail.values().flatten().collect();
        all.sort_by_key(|x| x.0);
        let n = all.len();
        for (j, (gi, op)) in all.iter().enumerate() {
            if !keep(j, *gi) {
                continue;
            }
            if torn_last && j + 1 == n {
                if let OpK::Write { off, data } = &op.k {
                    let cut = (data.len() / 2) & !511;
                    if cut > 0 {
                        vfs::apply(&mut img, &FileOp { file: op.file.clone(), k: OpK::Write { off: *off, data: data[..cut].to_vec() } });
                    }
                    continue;
                }
            }
            vfs::apply(&mut img, op);
        }
        img
    }
}

fn recover_and_check(kc: &KCase, r: &Recorded, img: &Image, req: usize, allow_after: bool, what: &str, st: &mut Stats) -> CheckResult {
    let dir = TempDir::new("c04img");
    vfs::write_image(img, dir.path()).map_err(|e| Fail::Inconclusive(format!("writing a crash image: {e}")))?;
    let dpath = dir.path().to_path_buf();
    st.check();
    // restart on the image
    let mut drv = Driver::with_factory(Backend::Sqlite, Via::Lib, &kc.case.cfg, None, sqlite_factory(dpath.clone()), None)
        .map_err(|e| Fail::Violation(format!("{what}: the database does not open after the crash: {e:#}")))?;
    drv.db_path = Some(dpath.clone());
    let d = normalise(drv.api_dump(&r.clients, &r.ids).map_err(|e| Fail::Violation(format!("{what}: reading the recovered database failed: {e:#}")))?);
    let before = &r.dumps[req.saturating_sub(1)];
    let after = &r.dumps[req];
    let matched = if d == *before {
        Some(req.saturating_sub(1))
    } else if allow_after && d == *after {
        Some(req)
    } else {
        None
    };
    let Some(j) = matched else {
        let diff = |a: &ApiDump| {
            for (c, x) in &a.clients {
                if d.clients.get(c) != Some(x) {
                    return format!("client {c}: expected {x:?}, recovered {:?}", d.clients.get(c));
                }
            }
            String::new()
        };
        return v(format!(
            "{what}: the recovered state is neither the state after the last acknowledged request nor (in flight: {}) the state after the request in flight. Against the acknowledged state: {}{}",
            r.labels[req],
            diff(before),
            if allow_after { format!(" | against the in-flight request's state: {}", diff(after)) } else { String::new() }
        ));
    };
    // integrity
    {
        let con = rusqlite::Connection::open(dpath.join("taskchampion-sync-server.sqlite3")).map_err(|e| Fail::Violation(format!("{what}: {e}")))?;
        let res: String = con.query_row("PRAGMA integrity_check", [], |r| r.get(0)).map_err(|e| Fail::Violation(format!("{what}: integrity_check failed to run: {e}")))?;
        if res != "ok" {
            return v(format!("{what}: PRAGMA integrity_check says: {res}"));
        }
        // version rows without a client (asked of the pinned table layout; a layout this query does
        // not fit is not this check's business - the storage-API comparison above is the oracle)
        match con.query_row("SELECT count(*) FROM versions v WHERE NOT EXISTS (SELECT 1 FROM clients c WHERE c.client_id = v.client_id)", [], |r| r.get::<_, i64>(0)) {
            Ok(0) => {}
            Ok(orphans) => return v(format!("{what}: {orphans} version rows belong to no client")),
            Err(_) => st.label("c04:orphan-query-not-applicable"),
        }
    }
    // the database is usable: a short continuation behaves per the model
    if !kc.continuation.is_empty() {
        let mut h = Hist::with_driver(&kc.case, drv, Oracles::default());
        h.model = r.models[j].clone();
        for id in &r.ids {
            h.know(*id);
        }
        let mut or = Oracles::default();
        or.c01 = true;
        or.c02 = true;
        h.or = or;
        let mut quiet = Stats::default();
        quiet.frozen = true;
        for (i, op) in kc.continuation.iter().enumerate() {
            if matches!(op, Op::Reopen | Op::AgeSnapshot { .. }) {
                continue;
            }
            h.step(2000 + i, op, &mut quiet).map_err(|f| match f {
                Fail::Violation(m) => Fail::Violation(format!("{what}: after recovery, request {op:?} misbehaves: {m}")),
                o => o,
            })?;
        }
        let clients = h.clients.clone();
        for c in clients {
            h.c01_walk(3000, c, &mut quiet).map_err(|f| match f {
                Fail::Violation(m) => Fail::Violation(format!("{what}: after recovery and a continuation: {m}")),
                o => o,
            })?;
        }
    }
    Ok(())
}

pub fn check_crash(kc: &KCase, st: &mut Stats) -> CheckResult {
    let r = record_history(kc)?;
    let n = r.ops.len();
    st.label_n("c04:file-ops-recorded", n as u64);
    for l in &r.labels {
        if let Some(i) = l.find(":under-lock-contention") {
            // e.g. c04:lock-contention:AddVersion:error(130 busy answers)
            st.label(&format!("c04:lock-contention:{}{}", &l[..i], &l[i + ":under-lock-contention".len()..]));
        }
    }
    // which crash points
    let wanted: Box<dyn Fn(usize) -> bool> = if kc.max_points == 0 || n <= kc.max_points as usize {
        Box::new(|_| true)
    } else {
        let stride = (n as u64 * 1000 / kc.max_points as u64).max(1000);
        let salt = kc.point_salt as u64;
        let ops = r.ops.clone();
        Box::new(move |k: usize| {
            // always: around syncs, truncates, deletes, creates; plus an even spread
            let special = |i: usize| i < ops.len() && !matches!(ops[i].k, OpK::Write { .. });
            special(k) || (k > 0 && special(k - 1)) || ((k as u64 * 1000 + salt) % stride) < 1000
        })
    };
    let mut img = Image::default();
    let mut dur = Durable::default();
    let mut req = 0usize;
    for k in 0..=n {
        // crash before operation k: operations 0..k are applied
        while req + 1 < r.ranges.len() && k >= r.ranges[req].1 && k >= r.ranges[req + 1].0 {
            req += 1;
        }
        // operations issued after a request's range and before the next one's belong to harness
        // reads; they sit in the next request's "nothing applied yet" zone
        let inside = k > r.ranges[req].0 && k <= r.ranges[req].1;
        let allow_after = inside;
        if wanted(k) {
            let describe = |variant: &str| {
                format!(
                    "crash before file operation {k} of {n} ({}; request in flight: #{req} {}; {variant})",
                    if k < n { format!("{:?} on {}", kind_name(&r.ops[k].k), r.ops[k].file) } else { "end of log".to_string() },
                    r.labels[req]
                )
            };
            // process crash: everything written so far is there
            recover_and_check(kc, &r, &img, req, allow_after, &describe("process crash image"), st)?;
            let t = dur.tail_len();
            if t > 0 {
                // power loss: synced content plus a subset of the later operations
                recover_and_check(kc, &r, &dur.image(&|_, _| false, false), req, allow_after, &describe("power loss, no unsynced operation survives"), st)?;
                if t > 1 {
                    recover_and_check(kc, &r, &dur.image(&|j, _| j + 1 != t, false), req, allow_after, &describe("power loss, all unsynced operations but the last survive"), st)?;
                }
                for (si, bits) in kc.subsets.iter().enumerate() {
                    let b = *bits as u64 ^ (k as u64).wrapping_mul(0x9E3779B97F4A7C15);
                    let keep = move |j: usize, gi: usize| ((b >> ((j + gi) % 61)) ^ (b >> (gi % 13))) & 1 == 1;
                    recover_and_check(kc, &r, &dur.image(&keep, false), req, allow_after, &describe(&format!("power loss, generated subset #{si} of {t} unsynced operations survives")), st)?;
                }
                if kc.deep {
                    if t <= 12 {
                        for drop_j in 0..t {
                            recover_and_check(kc, &r, &dur.image(&|j, _| j != drop_j, false), req, allow_after, &describe(&format!("power loss, unsynced operation {drop_j} of {t} lost")), st)?;
                        }
                    }
                    recover_and_check(kc, &r, &dur.image(&|_, _| true, true), req, allow_after, &describe("power loss, last write torn at a 512-byte boundary"), st)?;
                }
                st.label("c04:power-loss-point");
            }
            if inside && r.mutating[req] {
                st.label("c04:point-inside-mutating-request");
                st.nontrivial(&("c04", kc.via, r.labels[req].clone(), kind_name(&if k < n { r.ops[k].k.clone() } else { OpK::Sync }), if k < n { r.ops[k].file.clone() } else { String::new() }, t.min(6), k - r.ranges[req].0));
            }
        }
        if k < n {
            vfs::apply(&mut img, &r.ops[k]);
            dur.apply(k, &r.ops[k], &img);
        }
    }
    st.sample(|| serde_json::json!({"case": kc, "file_ops": n, "requests": r.labels}));
    Ok(())
}

fn kind_name(k: &OpK) -> &'static str {
    match k {
        OpK::Create => "create",
        OpK::Write { .. } => "write",
        OpK::Truncate { .. } => "truncate",
        OpK::Sync => "sync",
        OpK::Delete => "delete",
    }
}

fn sized_bytes() -> impl Strategy<Value = BytesSpec> {
    // transactions spanning 1, 2, ~10, ~100 pages
    (prop_oneof![10 => 1u32..200, 6 => 3000u32..9000, 4 => 30_000u32..50_000, 2 => 300_000u32..450_000, 1 => 1_050_000u32..1_400_000], 0u8..case::N_CLASSES, 0u32..65536).prop_map(|(len, class, seed)| BytesSpec { len, class, seed })
}

fn kcase(tier: Tier) -> BoxedStrategy<KCase> {
    let mut p = GenParams::default();
    p.max_clients = 2;
    p.min_ops = 2;
    p.max_ops = tier.pick(7, 12);
    p.w = [55, 5, 25, 5, 0, 0];
    p.av_latest_pct = 85;
    p.nonnil_base_pct = 25;
    let mut p2 = p.clone();
    p2.max_ops = 4;
    let deep = tier == Tier::Thorough;
    (
        prop_oneof![1 => Just(Via::Lib), 1 => Just(Via::Http)],
        case::case(&p),
        proptest::collection::vec(sized_bytes(), 0..4),
        proptest::collection::vec(any::<u32>(), tier.pick(1, 3)),
        proptest::collection::vec(case::op(2, &p2), 1..4),
        any::<u32>(),
    )
        .prop_map(move |(via, mut case, big, subsets, continuation, point_salt)| {
            // give some writes page-spanning payloads
            let mut bi = 0;
            for op in case.ops.iter_mut() {
                if let Op::AddVersion { data, .. } | Op::AddSnapshot { data, .. } = op {
                    if bi < big.len() && (data.seed % 3 == 0) {
                        *data = big[bi].clone();
                        bi += 1;
                    }
                }
            }
            // one generated history in five: lock contention during one of its requests
            let busy = if point_salt % 5 == 0 { Some(((point_salt >> 8) as u16, [12u16, 40, 75, 135, 200, 260, 320, 400][(point_salt as usize >> 3) % 8])) } else { None };
            KCase { via, case, subsets, continuation, max_points: if deep { 600 } else { 160 }, point_salt, deep, busy }
        })
        .boxed()
}

/// Small fixed histories whose crash points are all checked (complete per history).
fn canonical(tier: Tier) -> Vec<KCase> {
    let d = |s: u32, len: u32| BytesSpec { len, class: 2, seed: s };
    let mut out = vec![];
    for via in [Via::Lib, Via::Http] {
        for big in [40u32, 5000, tier.pick(40_000, 420_000), 2_200_000] {
            let ops = vec![
                Op::AddVersion { c: 0, parent: IdRef::Nil, data: d(1, 30) },
                Op::AddVersion { c: 0, parent: IdRef::Latest(0), data: d(2, big) },
                Op::AddSnapshot { c: 0, version: IdRef::Latest(0), data: d(3, big / 2 + 1) },
                Op::AddVersion { c: 1, parent: IdRef::Fresh(100), data: d(4, 10) },
                Op::AddVersion { c: 0, parent: IdRef::Latest(0), data: d(5, 20) },
                Op::AddSnapshot { c: 0, version: IdRef::Latest(0), data: d(6, 300) },
                Op::AddVersion { c: 0, parent: IdRef::Ancestor(0, 1), data: d(7, 9) },
            ];
            out.push(KCase {
                via,
                case: Case { cfg: Default::default(), salt: 4, nclients: 2, ops },
                subsets: vec![0xA5A5_5A5A, 0x1357_9BDF],
                continuation: vec![Op::AddVersion { c: 0, parent: IdRef::Latest(0), data: d(8, 12) }, Op::GetChild { c: 0, parent: IdRef::Nil }],
                max_points: if big > 100_000 { 400 } else { 0 },
                point_salt: 1,
                deep: tier == Tier::Thorough,
                busy: None,
            });
        }
        if via == Via::Lib {
            // a database beyond 16 MiB most of which becomes free pages: a large snapshot replaced
            // by a small one (whatever housekeeping a backend does then must be crash-safe too)
            let ops = vec![
                Op::AddVersion { c: 0, parent: IdRef::Nil, data: d(1, 30) },
                Op::AddSnapshot { c: 0, version: IdRef::Latest(0), data: d(2, 17 << 20) },
                Op::AddVersion { c: 0, parent: IdRef::Latest(0), data: d(3, 4000) },
                Op::AddSnapshot { c: 0, version: IdRef::Latest(0), data: d(4, 50) },
                Op::AddVersion { c: 0, parent: IdRef::Latest(0), data: d(5, 20) },
            ];
            out.push(KCase {
                via,
                case: Case { cfg: Default::default(), salt: 8, nclients: 1, ops },
                subsets: vec![0xA5A5_5A5A],
                continuation: vec![Op::GetSnapshot { c: 0 }, Op::AddVersion { c: 0, parent: IdRef::Latest(0), data: d(8, 12) }],
                max_points: tier.pick(48, 160),
                point_salt: 3,
                deep: false,
                busy: None,
            });
        }
        if via == Via::Lib {
            // a large snapshot replaced by one as large (tens of MiB each: whatever a backend does
            // to make room - free, reuse, stage - happens here at scale, and must leave the old or
            // the new one at every crash point)
            let sz = tier.pick(25u32 << 20, 30 << 20);
            let ops = vec![
                Op::AddVersion { c: 0, parent: IdRef::Nil, data: d(1, 30) },
                Op::AddSnapshot { c: 0, version: IdRef::Latest(0), data: d(2, sz) },
                Op::AddVersion { c: 0, parent: IdRef::Latest(0), data: d(3, 400) },
                Op::AddSnapshot { c: 0, version: IdRef::Latest(0), data: d(4, sz + 4096) },
            ];
            out.push(KCase {
                via,
                case: Case { cfg: Default::default(), salt: 8, nclients: 1, ops },
                subsets: vec![0xA5A5_5A5A],
                continuation: vec![Op::GetSnapshot { c: 0 }, Op::AddVersion { c: 0, parent: IdRef::Latest(0), data: d(8, 12) }],
                // (each point means writing, opening and checking images of 60 MiB and more: the
                // whole history has to stay well inside the per-case limit on a busy machine too)
                max_points: tier.pick(16, 40),
                point_salt: 5,
                deep: false,
                busy: None,
            });
        }
        // lock contention: another connection holds the write lock while an AddVersion (the
        // first of a new client, the next of a chain) is handled - for less than the lock-wait
        // budget, for one, two, three ... budgets - and then lets go
        for (target, attempts) in [(0u16, 12u16), (0, 75), (0, 200), (2, 12), (2, 40), (2, 75), (2, 135), (2, 200), (2, 260), (2, 320), (2, 400), (2, 600)] {
            if tier == Tier::Quick && via == Via::Http && ![40, 135, 200].contains(&attempts) {
                continue;
            }
            let ops = vec![
                Op::AddVersion { c: 0, parent: IdRef::Nil, data: d(1, 30) },
                Op::AddSnapshot { c: 0, version: IdRef::Latest(0), data: d(3, 40) },
                Op::AddVersion { c: 0, parent: IdRef::Latest(0), data: d(2, 5000) },
                Op::AddVersion { c: 0, parent: IdRef::Latest(0), data: d(5, 20) },
            ];
            out.push(KCase {
                via,
                case: Case { cfg: Default::default(), salt: 6, nclients: 1, ops },
                subsets: vec![0xA5A5_5A5A],
                continuation: vec![Op::AddVersion { c: 0, parent: IdRef::Latest(0), data: d(8, 12) }, Op::GetChild { c: 0, parent: IdRef::Nil }],
                max_points: 0,
                point_salt: 1,
                deep: false,
                busy: Some((target, attempts)),
            });
        }
    }
    out
}

pub fn run(tier: Tier, seed: u64) -> Report {
    let mut rep = Report::new(
        "C04",
        tier,
        seed,
        "fault_enumeration",
        "request histories (library and HTTP handlers, payloads spanning 1 to >100 pages, two clients) run on SQLite behind a recording VFS shim that sees every create/write/truncate/sync/delete of the database and its write-ahead log (schema set-up included). Every recorded operation is a crash point (all of them for the fixed small histories; syncs/truncates/deletes/creates, their neighbours and an even spread for long logs). For each point: the process-crash image (all operations so far) and power-loss images (per file the content as of its last sync plus a subset of later writes/truncates: none, all but the last, generated subsets; thorough: every single drop for short tails and a last write torn at 512 bytes) are written to a fresh directory and opened as a restart does. Oracle: opens, PRAGMA integrity_check ok, no version row without client, storage-API dump equals the dump recorded after the last acknowledged request or - only inside a request's range - after that request; then a generated continuation behaves per the model and the chains walk. Non-trivial: the point lies inside a mutating request; distinct by (entry, request, operation kind, file, unsynced tail size, offset in the request).",
    );
    rep.assume("file creation and deletion are atomic and durable when issued; a synced write is durable; unsynced writes and truncates may be lost independently at operation granularity (thorough: a last write may be torn at a 512-byte boundary); SQLite's recovery is correct under this, its own documented fault model");
    rep.assume("the -shm file is never part of an image (SQLite rebuilds it)");
    rep.assume("lock contention is injected at the VFS: attempts to take the write lock are answered SQLITE_BUSY and the busy handler's sleeps cost no real time (its time-out accounting goes by attempts), so 'held for three lock-wait budgets, then released' is a matter of ~180 refused attempts (one budget = 61 attempts with the default 5 s time-out); a second connection stays open meanwhile, as a real lock holder's would");
    rep.assume("'client exists with no versions' is identified with 'client unknown' (the HTTP create step is a committed transaction of its own by design)");
    let r = engine::replay_dir::<KCase, _>("C04", "crash", check_crash);
    rep.absorb("replay-tier", r);
    if rep.failed() {
        return rep;
    }
    let mut r = engine::enumerate("C04", "crash", canonical(tier), check_crash);
    r.exhaustive = false;
    rep.absorb("fixed-histories-all-crash-points", r);
    if rep.failed() {
        return rep;
    }
    let r = engine::explore("C04", "crash", seed, tier.pick(128, 2500), || kcase(tier), check_crash);
    rep.absorb("generated-histories", r);
    if rep.failed() {
        return rep;
    }
    kill_subrun(&mut rep, tier, seed);
    rep
}

pub fn replay(kind: &str, case_json: &Value, st: &mut Stats) -> Option<CheckResult> {
    let bad = |e: serde_json::Error| Fail::Inconclusive(format!("bad replay file: {e}"));
    match kind {
        "crash" => Some(serde_json::from_value(case_json.clone()).map_err(bad).and_then(|c| check_crash(&c, st))),
        "file-fault" => Some(serde_json::from_value(case_json.clone()).map_err(bad).and_then(|c| check_file_fault(&c, st))),
        "kill" => Some(serde_json::from_value(case_json.clone()).map_err(bad).and_then(|c| check_kill(&c, st))),
        _ => None,
    }
}

// ---------------------------------------------------------------------------------------------
// C05, file level

#[derive(Clone, Debug, Serialize, Deserialize, PartialEq, Eq, Hash)]
pub struct FLCase {
    pub via: Via,
    pub prefix: Case,
    pub target: Op,
    pub plan: Plan,
    /// a second failure inside the same request (e.g. in its close-time checkpoint)
    pub second: Option<Plan>,
}

fn issue(h: &mut Hist, op: &Op) -> Outcome {
    let c = h.clients[0];
    match op {
        Op::AddVersion { parent, data, .. } => {
            let p = h.resolve(parent);
            h.drv.add_version(c, p, &data.expand())
        }
        Op::GetChild { parent, .. } => {
            let p = h.resolve(parent);
            h.drv.get_child(c, p)
        }
        Op::AddSnapshot { version, data, .. } => {
            let ver = h.resolve(version);
            h.drv.add_snapshot(c, ver, &data.expand())
        }
        Op::GetSnapshot { .. } => h.drv.get_snapshot(c),
        _ => Outcome::SnapshotOk,
    }
}

pub fn check_file_fault(fc: &FLCase, st: &mut Stats) -> CheckResult {
    let dir = TempDir::new("c05f");
    let dpath = dir.path().to_path_buf();
    let rec = vfs::track(&dpath);
    rec.pause();
    let r = (|| -> CheckResult {
        let mut drv = Driver::with_factory(Backend::Sqlite, fc.via, &fc.prefix.cfg, None, sqlite_factory(dpath.clone()), None).map_err(|e| Fail::Violation(format!("opening storage: {e:#}")))?;
        drv.db_path = Some(dpath.clone());
        let mut h = Hist::with_driver(&fc.prefix, drv, Oracles::default());
        let mut quiet = Stats::default();
        quiet.frozen = true;
        for (i, op) in fc.prefix.ops.iter().enumerate() {
            if matches!(op, Op::Reopen | Op::AgeSnapshot { .. }) {
                continue;
            }
            h.step(i, op, &mut quiet)?;
        }
        let c = h.clients[0];
        let base = {
            let m = h.model.client(c);
            if m.chain.is_empty() {
                match &fc.target {
                    Op::AddVersion { parent, .. } => h.resolve(parent),
                    _ => Uuid::nil(),
                }
            } else {
                m.base()
            }
        };
        let sm = |h: &Hist| summarize(&*h.drv.storage, &dpath, c, base).map_err(|e| Fail::Violation(format!("reading state back failed: {e:#}")));
        let before = sm(&h)?;
        let after = {
            let twin_dir = copy_db(&dpath, "c05ftwin").map_err(|e| Fail::Inconclusive(format!("copying the database: {e}")))?;
            let tpath = twin_dir.path().to_path_buf();
            let tdrv = Driver::with_factory(Backend::Sqlite, fc.via, &fc.prefix.cfg, None, sqlite_factory(tpath.clone()), Some(twin_dir)).map_err(|e| Fail::Violation(format!("opening the twin: {e:#}")))?;
            let mut th = Hist::with_driver(&fc.prefix, tdrv, Oracles::default());
            th.model = h.model.clone();
            let out = issue(&mut th, &fc.target);
            if out.is_error() {
                return v(format!("without any fault the request {:?} fails: {}", fc.target, out.short()));
            }
            summarize(&*th.drv.storage, &tpath, c, base).map_err(|e| Fail::Violation(format!("reading the twin back failed: {e:#}")))?
        };
        let mut plans = vec![fc.plan];
        plans.extend(fc.second);
        rec.arm(plans);
        let out = issue(&mut h, &fc.target);
        let (injected, seen) = rec.disarm();
        st.check();
        let what = format!(
            "{:?} via {:?} on a client with {} versions{}; file-level fault plan {:?}{}; injected {:?}; calls seen while armed {:?}",
            fc.target,
            fc.via,
            before.chain.len(),
            if before.snapshot.is_some() { " and a snapshot" } else { "" },
            fc.plan,
            fc.second.map(|s| format!(" + {s:?}")).unwrap_or_default(),
            injected,
            vfs::KINDS.iter().zip(seen.iter()).map(|(k, n)| format!("{k:?}:{n}")).collect::<Vec<_>>()
        );
        // from here on everything is a "later request": each is answered within milliseconds, or
        // after the 5 s lock-wait budget at worst.  No answer for 90 s means not served.
        let _served = engine::deadline(90, "C05", "file-fault", fc, &format!("{what}: later requests are not served: no answer within 90 s (the lock-wait budget is 5 s) - something the failed request held is still held"), true);
        let now = sm(&h).map_err(|f| match f {
            Fail::Violation(m) => Fail::Violation(format!("{what}: afterwards {m}")),
            o => o,
        })?;
        if injected.is_empty() {
            st.label("c05f:fault-not-reached");
            if out.is_error() || now != after {
                return v(format!("{what}: nothing was injected, yet the request answered {} and the state is {now:?} (expected {after:?})", out.short()));
            }
            return Ok(());
        }
        // SQLite may absorb a failure (e.g. in the checkpoint after the commit)
        if out.is_error() {
            if now != before && now != after {
                return v(format!("{what}: the request failed ({}) and left a state that is neither as before nor as after: before {before:?}, now {now:?}, after {after:?}", out.short()));
            }
        } else if now != after {
            return v(format!("{what}: the client was answered {} but the state is not the request's after-state: now {now:?}, after {after:?}", out.short()));
        }
        st.label(&format!("c05f:{:?}:{}:{}", injected[0].0, fc.target.kind(), if out.is_error() { "error" } else { "absorbed" }));
        if after != before && matches!(injected[0].0, Kind::Write | Kind::Sync | Kind::Truncate | Kind::Delete | Kind::Open | Kind::Lock | Kind::Statement) {
            st.nontrivial(&("c05f", fc.via, fc.target.kind(), injected[0].0, injected[0].1, injected[0].2.clone(), out.is_error(), fc.plan.short, fc.plan.full));
        }
        // model follows what is stored
        if now == after && after != before {
            let mut txn = h.drv.storage.txn(c).map_err(|e| Fail::Violation(format!("{what}: a later transaction cannot begin: {e:#}")))?;
            if let Some(cl) = txn.get_client().map_err(|e| Fail::Violation(format!("{what}: {e:#}")))? {
                match &fc.target {
                    Op::AddVersion { parent, data, .. } => {
                        let p = h.resolve(parent);
                        if let Some(ver) = txn.get_version(cl.latest_version_id).map_err(|e| Fail::Violation(format!("{what}: {e:#}")))? {
                            drop(txn);
                            h.know(ver.version_id);
                            h.model.client_mut(c).apply_accept(ver.version_id, p, std::sync::Arc::new(data.expand()));
                        }
                    }
                    Op::AddSnapshot { version, data, .. } => {
                        drop(txn);
                        let ver = h.resolve(version);
                        h.model.client_mut(c).apply_snapshot(ver, std::sync::Arc::new(data.expand()));
                    }
                    _ => {}
                }
            }
        } else if !h.model.client(c).exists {
            let exists = crate::hist::client_meta(&h.drv, c).map(|m| m.exists).unwrap_or(false);
            h.model.client_mut(c).exists = exists;
        }
        // later requests are served normally
        let t0 = std::time::Instant::now();
        let mut or = Oracles::default();
        or.c02 = true;
        or.c11 = true;
        h.or = or;
        let cont = [
            Op::AddVersion { c: 0, parent: IdRef::Latest(0), data: BytesSpec { len: 5, class: 2, seed: 99 } },
            Op::AddSnapshot { c: 0, version: IdRef::Latest(0), data: BytesSpec { len: 7, class: 2, seed: 98 } },
            Op::GetChild { c: 0, parent: IdRef::Ancestor(0, 1) },
            Op::GetSnapshot { c: 0 },
        ];
        for (i, op) in cont.iter().enumerate() {
            h.step(1000 + i, op, &mut quiet).map_err(|f| match f {
                Fail::Violation(m) => Fail::Violation(format!("{what}: later request {i} ({op:?}) is not served normally: {m}")),
                o => o,
            })?;
        }
        let clients = h.clients.clone();
        h.or.c01 = true;
        for cl in clients {
            h.c01_walk(1100, cl, &mut quiet).map_err(|f| match f {
                Fail::Violation(m) => Fail::Violation(format!("{what}: afterwards: {m}")),
                o => o,
            })?;
        }
        if t0.elapsed() > std::time::Duration::from_millis(2500) {
            // slow, but served; on a busy machine this says nothing
            st.label("c05:later-requests-served-but-slow");
        }
        st.sample(|| serde_json::json!({"case": fc, "injected": format!("{injected:?}"), "answer": out.short()}));
        Ok(())
    })();
    vfs::untrack();
    drop(dir);
    r
}

fn plan() -> impl Strategy<Value = Plan> {
    (
        prop_oneof![3 => Just(Kind::Write), 3 => Just(Kind::Sync), 2 => Just(Kind::Read), 1 => Just(Kind::Truncate), 2 => Just(Kind::Open), 1 => Just(Kind::Delete), 2 => Just(Kind::Lock), 1 => Just(Kind::ShmMap), 2 => Just(Kind::Statement)],
        prop_oneof![4 => 0u32..4, 2 => 0u32..12, 1 => 0u32..60],
        any::<bool>(),
        prop::bool::weighted(0.3),
    )
        .prop_map(|(kind, nth, short, full)| Plan { kind, nth, short, full })
}

fn flcase() -> BoxedStrategy<FLCase> {
    let mut p = GenParams::default();
    p.max_clients = 1;
    p.max_ops = 8;
    p.min_ops = 0;
    p.w = [60, 0, 25, 0, 0, 0];
    p.av_latest_pct = 92;
    let target = prop_oneof![
        5 => (prop_oneof![5 => Just(IdRef::Latest(0)), 1 => Just(IdRef::Nil), 1 => Just(IdRef::Ancestor(0, 1))], prop_oneof![3 => case::bytes_spec(300), 1 => (5000u32..30000, 0u8..8, 0u32..100).prop_map(|(len, class, seed)| BytesSpec { len, class, seed })]).prop_map(|(parent, data)| Op::AddVersion { c: 0, parent, data }),
        4 => (prop_oneof![4 => Just(IdRef::Latest(0)), 2 => (1u8..6).prop_map(|b| IdRef::Ancestor(0, b))], case::bytes_spec(3000)).prop_map(|(version, data)| Op::AddSnapshot { c: 0, version, data }),
        1 => Just(Op::GetChild { c: 0, parent: IdRef::Ancestor(0, 1) }),
        1 => Just(Op::GetSnapshot { c: 0 }),
    ];
    (
        prop_oneof![1 => Just(Via::Lib), 1 => Just(Via::Http)],
        prop_oneof![1 => Just(Case { cfg: Default::default(), salt: 5, nclients: 1, ops: vec![] }), 4 => case::case(&p)],
        target,
        plan(),
        proptest::option::weighted(0.25, plan()),
    )
        .prop_map(|(via, prefix, target, plan, second)| FLCase { via, prefix, target, plan, second })
        .boxed()
}

fn file_fault_grid() -> Vec<FLCase> {
    let d = |s: u32, len: u32| BytesSpec { len, class: 2, seed: s };
    let prefix = vec![
        Op::AddVersion { c: 0, parent: IdRef::Nil, data: d(1, 20) },
        Op::AddVersion { c: 0, parent: IdRef::Latest(0), data: d(2, 30) },
        Op::AddSnapshot { c: 0, version: IdRef::Ancestor(0, 1), data: d(3, 40) },
    ];
    let targets = vec![Op::AddVersion { c: 0, parent: IdRef::Latest(0), data: d(10, 6000) }, Op::AddSnapshot { c: 0, version: IdRef::Latest(0), data: d(12, 50) }];
    let mut out = vec![];
    for via in [Via::Lib, Via::Http] {
        for t in &targets {
            for kind in vfs::KINDS {
                let n = match kind {
                    Kind::Write => 10,
                    Kind::Read => 8,
                    Kind::Sync | Kind::Lock | Kind::Open => 5,
                    Kind::Statement => 48,
                    _ => 3,
                };
                for nth in 0..n {
                    for (short, full) in [(false, false), (true, false), (false, true)] {
                        if kind != Kind::Write && (short || full) {
                            continue;
                        }
                        out.push(FLCase { via, prefix: Case { cfg: Default::default(), salt: 5, nclients: 1, ops: prefix.clone() }, target: t.clone(), plan: Plan { kind, nth, short, full }, second: None });
                    }
                }
            }
        }
    }
    out
}

pub fn run_file_level_faults(rep: &mut Report, tier: Tier, seed: u64) {
    let r = engine::replay_dir::<FLCase, _>("C05", "file-fault", check_file_fault);
    rep.absorb("replay-tier-file-faults", r);
    if rep.failed() {
        return;
    }
    let mut r = engine::enumerate("C05", "file-fault", file_fault_grid(), check_file_fault);
    r.exhaustive = false;
    rep.absorb("file-faults-grid", r);
    if rep.failed() {
        return;
    }
    let r = engine::explore("C05", "file-fault", seed, tier.pick(8000, 60_000), flcase, check_file_fault);
    rep.absorb("file-faults-generated", r);
}

// ---------------------------------------------------------------------------------------------
// C04 complement: the real executable is killed (SIGKILL) at generated moments during a
// write-heavy exchange and restarted on the same directory.  Process-crash half only, at points
// the operating system picks; sound, not complete.

#[derive(Clone, Debug, Serialize, Deserialize, PartialEq, Eq, Hash)]
pub struct KillCase {
    /// milliseconds after the writers start at which the server is killed, one entry per round
    pub kill_after_ms: Vec<u16>,
    pub writers: u8,
    pub payload_len: u32,
    pub salt: u32,
}

fn start_server(bin: &std::path::Path, dir: &std::path::Path) -> Result<crate::props::binary::Proc, Fail> {
    for _ in 0..4 {
        let port = crate::props::binary::free_port("127.0.0.1").ok_or_else(|| Fail::Inconclusive("no loopback port".into()))?;
        let launch = crate::props::binary::Launch {
            args: vec!["--data-dir".into(), dir.to_string_lossy().into_owned(), "--listen".into(), format!("127.0.0.1:{port}")],
            env: vec![],
            connect: vec![format!("127.0.0.1:{port}").parse().unwrap()],
            cwd: None,
            dir_arg: None, listen: vec![],
        };
        if let Ok(p) = crate::props::binary::spawn(bin, &launch) {
            return Ok(p);
        }
    }
    Err(Fail::Inconclusive("cannot start the server executable".into()))
}

pub fn check_kill(kc: &KillCase, st: &mut Stats) -> CheckResult {
    use crate::sock::{exchange, Encoding};
    use std::sync::atomic::{AtomicBool, Ordering};
    use std::sync::{Arc, Mutex};
    let Some(bin) = crate::props::binary::server_bin() else { return Err(Fail::Inconclusive("the server executable has not been built".into())) };
    let dir = TempDir::new("c04k");
    let n = (kc.writers % 4 + 1) as usize;
    let clients: Vec<Uuid> = (0..n).map(|i| case::client_uuid(kc.salt, i as u8)).collect();
    // per client: acknowledged (id, parent, payload) in order
    let acked: Arc<Mutex<Vec<Vec<(Uuid, Uuid, Vec<u8>)>>>> = Arc::new(Mutex::new(vec![vec![]; n]));
    let to = std::time::Duration::from_secs(120);
    for (round, delay) in kc.kill_after_ms.iter().enumerate() {
        let proc = start_server(&bin, dir.path())?;
        let addr = proc.addrs[0];
        // after a restart: everything acknowledged so far is served, in order
        for (ci, c) in clients.iter().enumerate() {
            let log = acked.lock().unwrap()[ci].clone();
            let mut p = Uuid::nil();
            for (i, (id, parent, data)) in log.iter().enumerate() {
                let r = exchange(addr, &crate::driver::req_get_child(*c, p), Encoding::ContentLength, &[], to).map_err(|e| Fail::Inconclusive(format!("socket: {e:?}")))?;
                match crate::driver::decode(crate::driver::Endpoint::GetChild, &r) {
                    Outcome::Found { id: fid, parent: fp, data: fd } if fid == *id && fp == *parent && *fd == *data => p = fid,
                    o => return v(format!("round {round}: after SIGKILL and restart, acknowledged version {i} of client #{ci} ({id}, {} bytes) is served as {}", data.len(), o.short())),
                }
            }
            // at most one more version (a request in flight at the kill), completely applied
            let r = exchange(addr, &crate::driver::req_get_child(*c, p), Encoding::ContentLength, &[], to).map_err(|e| Fail::Inconclusive(format!("socket: {e:?}")))?;
            match crate::driver::decode(crate::driver::Endpoint::GetChild, &r) {
                Outcome::NotFound => {}
                Outcome::Found { id, parent, data } if parent == p => {
                    // in flight at the kill and committed: adopt it
                    acked.lock().unwrap()[ci].push((id, parent, (*data).clone()));
                    st.label("c04:kill:in-flight-request-was-applied");
                }
                o => return v(format!("round {round}: after SIGKILL and restart, the end of client #{ci}'s chain answers {}", o.short())),
            }
            st.check();
        }
        // writers
        let stop = Arc::new(AtomicBool::new(false));
        let mut joins = vec![];
        for (ci, c) in clients.iter().copied().enumerate() {
            let stop = stop.clone();
            let acked = acked.clone();
            let len = kc.payload_len as usize;
            let salt = kc.salt;
            joins.push(std::thread::spawn(move || {
                let mut k = 0u32;
                while !stop.load(Ordering::Relaxed) {
                    let parent = acked.lock().unwrap()[ci].last().map(|x| x.0).unwrap_or(Uuid::nil());
                    let body = BytesSpec { len: len as u32 + k % 7, class: 2, seed: salt ^ (ci as u32 * 1000 + k) }.expand();
                    k += 1;
                    let req = crate::driver::req_add_version(c, parent, vec![bytes::Bytes::from(body.clone())]);
                    match exchange(addr, &req, Encoding::ContentLength, &[], std::time::Duration::from_secs(5)) {
                        Ok(r) => match crate::driver::decode(crate::driver::Endpoint::AddVersion, &r) {
                            Outcome::Accepted { id, .. } => acked.lock().unwrap()[ci].push((id, parent, body.clone())),
                            _ => break,
                        },
                        Err(_) => break, // the server is gone
                    }
                    if k % 5 == 0 {
                        let latest = acked.lock().unwrap()[ci].last().map(|x| x.0).unwrap_or(Uuid::nil());
                        let _ = exchange(addr, &crate::driver::req_add_snapshot(c, latest, vec![bytes::Bytes::from(body.clone())]), Encoding::ContentLength, &[], std::time::Duration::from_secs(5));
                    }
                }
            }));
        }
        std::thread::sleep(std::time::Duration::from_millis(*delay as u64));
        let mut proc = proc;
        proc.kill9();
        stop.store(true, Ordering::Relaxed);
        for j in joins {
            let _ = j.join();
        }
    }
    let total: usize = acked.lock().unwrap().iter().map(|l| l.len()).sum();
    st.label_n("c04:kill:versions-acknowledged", total as u64);
    if total > 0 {
        st.nontrivial(&("c04-kill", kc.kill_after_ms.clone(), n, kc.payload_len, total.min(50)));
    }
    Ok(())
}

fn killcase() -> BoxedStrategy<KillCase> {
    (proptest::collection::vec(prop_oneof![3 => 1u16..40, 2 => 10u16..200], 2..5), 0u8..4, prop_oneof![3 => 10u32..300, 1 => 4000u32..40_000, 1 => 200_000u32..400_000], any::<u32>())
        .prop_map(|(kill_after_ms, writers, payload_len, salt)| KillCase { kill_after_ms, writers, payload_len, salt: salt & 0xFFFF })
        .boxed()
}

pub fn kill_subrun(rep: &mut Report, tier: Tier, seed: u64) {
    let r = engine::replay_dir::<KillCase, _>("C04", "kill", check_kill);
    rep.absorb("replay-tier-kill", r);
    if rep.failed() {
        return;
    }
    let r = engine::explore_n("C04", "kill", seed, tier.pick(24, 800), 8, killcase, check_kill);
    rep.absorb("sigkill-real-executable", r);
}

//! C06 - version and snapshot payloads are returned byte-for-byte as uploaded.

use crate::case::{self, BytesSpec, Cfg};
use crate::driver::{cut, decode, req_add_snapshot, req_add_version, req_get_child, req_get_snapshot, sqlite_factory, ArcStorage, Backend, Driver, Endpoint, Outcome, TempDir, Via};
use crate::engine::{self, CheckResult, Fail, Report, Stats, Tier};
use crate::props::http::{check_limit, limit_cases, sizes};
use crate::sock::{exchange, Encoding, SockError, SockServer};
use bytes::Bytes;
use proptest::prelude::*;
use serde::{Deserialize, Serialize};
use serde_json::Value;
use std::sync::Arc;
use std::time::Duration;
use taskchampion_sync_server::WebServer;
use taskchampion_sync_server_core::{InMemoryStorage, Storage};
use uuid::Uuid;

#[derive(Clone, Copy, Debug, Serialize, Deserialize, PartialEq, Eq, Hash)]
pub enum Entry {
    Lib,
    Http,
    Sock,
}

#[derive(Clone, Debug, Serialize, Deserialize, PartialEq, Eq, Hash)]
pub struct P6 {
    pub backend: Backend,
    pub entry: Entry,
    pub snapshot: bool,
    pub spec: BytesSpec,
    /// how the body is cut into chunks (in-process HTTP: payload chunks; socket + chunked: HTTP chunks)
    pub sizes: Vec<u32>,
    pub enc: Encoding,
    /// socket: sizes of the individual write() calls
    pub wsizes: Vec<u32>,
    pub reopen: bool,
    pub later: u8,
    /// 0: the client's chain starts at nil and the payload is its second version;
    /// 1: the payload is the client's first version, submitted with a non-nil parent;
    /// 2: the chain starts from a non-nil parent and the payload is the second version
    #[serde(default)]
    pub first: u8,
}

fn v<T>(m: String) -> Result<T, Fail> {
    Err(Fail::Violation(m))
}

/// The three ways in, behind one small interface.
enum Conn {
    Drv(Driver),
    Sock { _dir: Option<TempDir>, srv: SockServer, sizes: Vec<u32>, enc: Encoding, wsizes: Vec<u32> },
}

impl Conn {
    fn call(&mut self, ep: Endpoint, c: Uuid, id: Uuid, data: Option<&Bytes>) -> Result<Outcome, Fail> {
        match self {
            Conn::Drv(d) => Ok(match ep {
                Endpoint::AddVersion => d.add_version(c, id, data.unwrap()),
                Endpoint::GetChild => d.get_child(c, id),
                Endpoint::AddSnapshot => d.add_snapshot(c, id, data.unwrap()),
                Endpoint::GetSnapshot => d.get_snapshot(c),
            }),
            Conn::Sock { srv, sizes, enc, wsizes, .. } => {
                let chunks = |b: &Bytes| cut(b, sizes);
                let req = match ep {
                    Endpoint::AddVersion => req_add_version(c, id, chunks(data.unwrap())),
                    Endpoint::GetChild => req_get_child(c, id),
                    Endpoint::AddSnapshot => req_add_snapshot(c, id, chunks(data.unwrap())),
                    Endpoint::GetSnapshot => req_get_snapshot(c),
                };
                match exchange(srv.addr, &req, *enc, wsizes, Duration::from_secs(240)) {
                    Ok(r) => Ok(decode(ep, &r)),
                    Err(SockError::NoResponse(m)) => Err(Fail::Inconclusive(format!("socket exchange gave no response: {m}"))),
                    Err(SockError::Io(m)) => Err(Fail::Inconclusive(format!("socket i/o: {m}"))),
                }
            }
        }
    }
}

fn open(p: &P6) -> Result<Conn, Fail> {
    let cfg = Cfg::default();
    let sv = |e: anyhow::Error| Fail::Violation(format!("opening storage: {e:#}"));
    match p.entry {
        Entry::Lib => Ok(Conn::Drv(Driver::new(p.backend, Via::Lib, &cfg).map_err(sv)?)),
        Entry::Http => {
            let mut d = Driver::new(p.backend, Via::Http, &cfg).map_err(sv)?;
            d.content_length = p.enc == Encoding::ContentLength;
            // a share of the uploads is slow (virtual time passes between the two halves)
            if p.spec.seed % 5 == 0 && p.spec.len < 100_000 {
                d.stall_secs = [11, 31, 61, 121, 301][(p.spec.seed / 5 % 5) as usize];
            }
            let sizes = p.sizes.clone();
            d.chunker = Some(Box::new(move |data: &[u8]| cut(&Bytes::copy_from_slice(data), &sizes)));
            Ok(Conn::Drv(d))
        }
        Entry::Sock => {
            let (storage, dir): (Arc<dyn Storage>, Option<TempDir>) = match p.backend {
                Backend::Mem => (Arc::new(InMemoryStorage::new()), None),
                Backend::Sqlite => {
                    let d = TempDir::new("c06");
                    let st = sqlite_factory(d.path().to_path_buf())().map_err(sv)?.served;
                    (st, Some(d))
                }
            };
            let ws = WebServer::new(crate::driver::server_config(&cfg), None, ArcStorage(storage));
            let srv = SockServer::start(ws).map_err(|e| Fail::Inconclusive(format!("cannot start a socket server: {e:#}")))?;
            Ok(Conn::Sock { _dir: dir, srv, sizes: p.sizes.clone(), enc: p.enc, wsizes: p.wsizes.clone() })
        }
    }
}

fn check(p: &P6, st: &mut Stats) -> CheckResult {
    let mut conn = open(p)?;
    // payloads that *are* gzip or zlib streams are, half of the time, also declared as such
    if let Conn::Drv(d) = &mut conn {
        if p.later % 2 == 0 {
            d.content_encoding = match p.spec.class % case::N_CLASSES {
                8 => Some("gzip"),
                9 => Some("deflate"),
                _ => None,
            };
            if d.content_encoding.is_some() {
                st.label("c06:declared-content-encoding");
            }
        }
    }
    let c = case::client_uuid(6, 0);
    let small = Bytes::from_static(b"first");
    let mode = if p.snapshot && p.first % 3 == 1 { 2 } else { p.first % 3 };
    let base = if mode == 0 { Uuid::nil() } else { case::fresh_uuid(4242) };
    // v1: the version the payload hangs off (mode 1: the non-nil id the chain starts from)
    let v1 = if mode == 1 {
        base
    } else {
        match conn.call(Endpoint::AddVersion, c, base, Some(&small))? {
            Outcome::Accepted { id, .. } => id,
            o => return v(format!("setting up the first version: {}", o.short())),
        }
    };
    let body = Bytes::from(p.spec.expand());
    // half of the snapshot cases: the client already holds a *longer* snapshot (whatever space the
    // old one took must not show through the new one), taken at the previous version
    let mut v1 = v1;
    if p.snapshot && mode != 1 && p.reopen == (p.later % 2 == 0) {
        // (for the common-prefix class: one of the same length that differs only after its first
        // 4 KiB, instead of a longer one)
        let longer = if p.spec.class % case::N_CLASSES == 10 {
            Bytes::from(BytesSpec { len: p.spec.len, class: 10, seed: p.spec.seed ^ 0x77 }.expand())
        } else {
            Bytes::from(BytesSpec { len: p.spec.len + 1 + p.spec.len / 5 + 4096, class: (p.spec.class + 1) % case::N_CLASSES, seed: p.spec.seed ^ 0x77 }.expand())
        };
        match conn.call(Endpoint::AddSnapshot, c, v1, Some(&longer))? {
            Outcome::SnapshotOk => {}
            o => return v(format!("setting up an earlier, longer snapshot: {}", o.short())),
        }
        match conn.call(Endpoint::AddVersion, c, v1, Some(&small))? {
            Outcome::Accepted { id, .. } => v1 = id,
            o => return v(format!("setting up the next version: {}", o.short())),
        }
        st.label("c06:replaces-a-longer-snapshot");
    }
    let what = format!(
        "{} of {} bytes ({}) via {:?} on {:?}, chunk sizes {:?}, {:?}",
        if p.snapshot { "snapshot" } else { "version" },
        body.len(),
        case::class_name(p.spec.class),
        p.entry,
        p.backend,
        p.sizes,
        p.enc
    );
    let mut vid = Uuid::nil();
    if p.snapshot {
        match conn.call(Endpoint::AddSnapshot, c, v1, Some(&body))? {
            Outcome::SnapshotOk => {}
            o => return v(format!("{what}: upload answered {}", o.short())),
        }
    } else {
        match conn.call(Endpoint::AddVersion, c, v1, Some(&body))? {
            Outcome::Accepted { id, .. } => vid = id,
            o => return v(format!("{what}: upload answered {}", o.short())),
        }
    }
    let read = |conn: &mut Conn, when: &str, st: &mut Stats| -> CheckResult {
        let back = if p.snapshot { conn.call(Endpoint::GetSnapshot, c, Uuid::nil(), None)? } else { conn.call(Endpoint::GetChild, c, v1, None)? };
        st.check();
        match &back {
            Outcome::Snapshot { id, data } if p.snapshot => {
                if *id != v1 {
                    return v(format!("{what}: {when}: snapshot returned with version {id}, uploaded for {v1}"));
                }
                if data[..] != body[..] {
                    return v(format!("{what}: {when}: {}", describe_diff(&body, data)));
                }
            }
            Outcome::Found { id, parent, data } if !p.snapshot => {
                if *id != vid || *parent != v1 {
                    return v(format!("{what}: {when}: returned ids ({id}, parent {parent}) differ from the acknowledged ({vid}, parent {v1})"));
                }
                if data[..] != body[..] {
                    return v(format!("{what}: {when}: {}", describe_diff(&body, data)));
                }
            }
            o => return v(format!("{what}: {when}: read back answered {}", o.short())),
        }
        Ok(())
    };
    read(&mut conn, "right after the upload", st)?;
    if p.reopen && p.backend == Backend::Sqlite {
        if let Conn::Drv(d) = &mut conn {
            d.reopen().map_err(|e| Fail::Violation(format!("{what}: reopening the database failed: {e:#}")))?;
            read(&mut conn, "after reopening the database", st)?;
            st.label("c06:reopened");
        }
    }
    let mut latest = if p.snapshot { v1 } else { vid };
    for k in 0..p.later % 4 {
        let more = Bytes::from(BytesSpec { len: 1 + (p.spec.len % 50) + k as u32, class: (p.spec.class + 1 + k) % case::N_CLASSES, seed: p.spec.seed ^ 0x55 }.expand());
        match conn.call(Endpoint::AddVersion, c, latest, Some(&more))? {
            Outcome::Accepted { id, .. } => latest = id,
            o => return v(format!("{what}: a later upload answered {}", o.short())),
        }
        if !p.snapshot && k == 1 {
            // a snapshot of another version must not disturb the stored version either
            let _ = conn.call(Endpoint::AddSnapshot, c, latest, Some(&more))?;
        }
    }
    if p.later % 4 > 0 {
        read(&mut conn, "after later uploads", st)?;
    }
    if p.snapshot && p.later % 2 == 1 {
        // another upload for the version that already holds the snapshot is not the request that
        // created it: whatever bytes it carries, the snapshot keeps the bytes it was created with
        let other = Bytes::from(BytesSpec { len: 1 + (p.spec.len % 97), class: (p.spec.class + 3) % case::N_CLASSES, seed: p.spec.seed ^ 0xAA }.expand());
        if other[..] != body[..] {
            let _ = conn.call(Endpoint::AddSnapshot, c, v1, Some(&other))?;
            read(&mut conn, "after a second AddSnapshot for the same version with other bytes", st)?;
            st.label("c06:second-upload-for-the-snapshot-version");
        }
    }
    let nchunks = cut(&body, &p.sizes).len();
    st.label(&format!("c06:{:?}/{:?}/{}", p.entry, p.backend, if p.snapshot { "snapshot" } else { "version" }));
    st.label(&format!("c06:class:{}", case::class_name(p.spec.class)));
    st.label(match body.len() {
        0..=64 => "c06:len<=64",
        65..=3799 => "c06:len<=3799",
        3800..=4200 => "c06:len:overflow-threshold",
        4201..=65536 => "c06:len<=64K",
        65537..=1048576 => "c06:len<=1M",
        _ => "c06:len>1M",
    });
    if body.len() >= 2_000_000 && (body.len() % 1_000_000 == 0 || body.len() % (1 << 20) == 0) {
        st.label("c06:len:whole-megabytes>=2");
    }
    if body.len() > 4096 || nchunks >= 2 || !matches!(p.spec.class % case::N_CLASSES, 3 | 7) {
        st.nontrivial(&("c06", body.len(), p.spec.class % case::N_CLASSES, nchunks.min(4), p.entry, p.backend, p.snapshot));
    }
    st.sample(|| serde_json::json!({"case": p}));
    Ok(())
}

fn describe_diff(want: &[u8], got: &[u8]) -> String {
    if want.len() != got.len() {
        let common = want.iter().zip(got.iter()).take_while(|(a, b)| a == b).count();
        return format!("uploaded {} bytes, got {} bytes back (first difference at offset {common})", want.len(), got.len());
    }
    let i = want.iter().zip(got.iter()).position(|(a, b)| a != b).unwrap_or(0);
    format!("byte {i} of {} differs: uploaded 0x{:02x}, got 0x{:02x}", want.len(), want[i], got[i])
}

fn len_strategy(max_random: u32, max_pow: u32) -> BoxedStrategy<u32> {
    prop_oneof![
        3 => 1u32..=64,
        4 => 3800u32..=4200,
        3 => (1u32..=64, prop::sample::select(vec![-40i32, -2, -1, 0, 1, 2, 40])).prop_map(|(k, d)| (k * 4096).saturating_add_signed(d).max(1)),
        2 => (1u32..=max_pow, prop::sample::select(vec![-1i32, 0, 1])).prop_map(|(k, d)| (1u32 << k).saturating_add_signed(d).max(1)),
        3 => 1u32..=max_random,
        1 => 1u32..=8192,
        // round decimal and binary multiples (where a response or storage layer that works in
        // slices would have its seams), up to a few MB quick / the random maximum thorough
        2 => (prop::sample::select(vec![1000u32, 10_000, 65_536, 100_000, 1_000_000, 1 << 20]), 1u32..=64, prop::sample::select(vec![-1i32, 0, 0, 1])).prop_map(move |(unit, k, d)| {
            let cap = max_random.max(4_200_000);
            let k = if (k as u64) * (unit as u64) > cap as u64 { k % (cap / unit).max(1) + 1 } else { k };
            (k * unit).saturating_add_signed(d).max(1)
        }),
    ]
    .boxed()
}

fn p6(tier: Tier) -> BoxedStrategy<P6> {
    let (max_random, max_pow) = (tier.pick(1 << 20, 32 << 20), tier.pick(22, 24));
    (
        prop_oneof![1 => Just(Backend::Mem), 1 => Just(Backend::Sqlite)],
        prop_oneof![3 => Just(Entry::Lib), 4 => Just(Entry::Http), 2 => Just(Entry::Sock)],
        any::<bool>(),
        (len_strategy(max_random, max_pow), 0u8..case::N_CLASSES, 0u32..65536),
        sizes(),
        prop_oneof![Just(Encoding::ContentLength), Just(Encoding::Chunked)],
        prop_oneof![2 => Just(vec![]), 1 => proptest::collection::vec(1u32..5000, 1..4), 1 => Just(vec![1u32, 70000])],
        any::<bool>(),
        0u8..4,
    )
        .prop_map(move |(backend, entry, snapshot, (len, class, seed), mut sizes, enc, wsizes, reopen, later)| {
            let wsizes: Vec<u32> = wsizes;
            let first = ((seed >> 3) % 4) as u8 % 3;
            // one-byte chunks only for bodies up to 70 000 bytes - tens of thousands of pieces - (the handler is linear in chunks, the harness too)
            if len > 70_000 && sizes.iter().any(|s| *s < 64) {
                sizes = sizes.iter().map(|s| if *s == 0 { 0 } else { *s * 997 + 64 }).collect();
            }
            // payloads that end like HTTP framing: mostly with that ending as a piece of its own
            if class % case::N_CLASSES == 11 && seed % 4 != 0 {
                let k = case::framing_tail(seed).len() as u32;
                if len > k {
                    sizes = if seed % 4 == 1 { vec![len - k, k] } else { vec![(len - k).div_ceil(2), (len - k) / 2, k] };
                    sizes.retain(|s| *s > 0);
                }
            }
            // likewise tiny socket writes (each one a packet with TCP_NODELAY): for large bodies
            // they take minutes on a busy machine and tell nothing a few thousand of them do not
            let wsizes: Vec<u32> = if len > 200_000 && wsizes.iter().any(|w| *w < 512) { wsizes.iter().map(|w| *w * 61 + 512).collect() } else { wsizes };
            // sockets: bound the size so a quick run stays quick
            let len = if entry == Entry::Sock { len.min(8 << 20) } else { len };
            P6 { backend, entry, snapshot, spec: BytesSpec { len, class, seed }, sizes, enc, wsizes, reopen, later, first }
        })
        .boxed()
}

pub fn run(tier: Tier, seed: u64) -> Report {
    let mut rep = Report::new(
        "C06",
        tier,
        seed,
        "exploration",
        "generated payloads: lengths from a boundary-heavy distribution (1..64, a dense sweep 3800..4200 around SQLite's overflow threshold, k*4096 +-{0,1,2,40}, powers of two +-1, round multiples k*{1000, 10^4, 65536, 10^5, 10^6, 2^20} +-{0,1}, random up to 1 MiB quick / 32 MiB thorough, and limit-1 / limit exactly), thirteen byte classes (zeros, 0xFF, random, numeric-looking text, UTF-8, invalid UTF-8, embedded NULs, id-like text, gzip/zlib look-alikes, common prefix, framing tails, near-identical siblings); chains whose consecutive payloads differ by two swapped bytes 1..130 apart, one flipped bit or a rotation, each version and snapshot re-read after every later request, generated chunk splittings; versions and snapshots; memory and SQLite; through the library, the in-process HTTP service (payload chunks) and a real socket (Content-Length and chunked, generated write sizes). Round-trip oracle: bytes, version id and parent id read back equal what was uploaded/acknowledged - right away, after reopening the database, and after later uploads. Non-trivial: longer than one page, or >=2 chunks, or a byte class other than ASCII text; distinct by (length, class, chunk bucket, entry, backend, kind).",
    );
    rep.assume("the 1..100 MiB range is sampled, densely only near structural boundaries; socket cases are bounded to 8 MiB");
    rep.assume("a socket exchange that ends without a status line is inconclusive for that case, never a violation");
    let r = engine::replay_dir::<P6, _>("C06", "payload", check);
    rep.absorb("replay-tier", r);
    if rep.failed() {
        return rep;
    }
    let r = engine::explore("C06", "payload", seed, tier.pick(8000, 60_000), || p6(tier), check);
    rep.absorb("round-trip", r);
    if rep.failed() {
        return rep;
    }
    // near-identical payloads one after the other (parent and child, snapshot and next snapshot):
    // same length, differing by two swapped bytes 1..130 apart, one flipped bit, or a rotation
    let r = engine::enumerate("C06", "history", sibling_cases(tier), |hc: &crate::props::seq::HCase, st| {
        let mut or = crate::hist::Oracles::default();
        or.c02 = true;
        or.c07 = true;
        or.c11 = true;
        crate::hist::run_history(&hc.case, hc.backend, hc.via, or, st)
    });
    rep.absorb("near-identical-siblings", r);
    if rep.failed() {
        return rep;
    }
    // several uploads in flight on one server worker, pieces interleaved
    let r = engine::replay_dir::<ICase, _>("C06", "interleaved", check_interleaved);
    rep.absorb("replay-tier-interleaved", r);
    if rep.failed() {
        return rep;
    }
    let r = engine::explore("C06", "interleaved", seed, tier.pick(400, 12_000), icase, check_interleaved);
    rep.absorb("interleaved-uploads-one-worker", r);
    if rep.failed() {
        return rep;
    }
    // limit-sized bodies (shared machinery with C15): accepted ones are read back and compared
    let mut cases = limit_cases(tier);
    cases.retain(|c| c.delta <= 0);
    if tier == Tier::Quick {
        cases.retain(|c| c.backend == Backend::Sqlite || !c.sizes.is_empty());
    }
    let mut r = engine::enumerate_n("C06", "limit", 6, cases, |c, st| check_limit(c, false, st));
    r.exhaustive = false;
    rep.absorb("limit-sized-round-trip", r);
    rep
}

/// Chains whose consecutive payloads are members of one "sibling" family (case.rs class 12).
fn sibling_cases(tier: Tier) -> Vec<crate::props::seq::HCase> {
    use crate::case::{Case, IdRef, Op};
    let mut out = vec![];
    let lens: &[u32] = if tier == Tier::Quick { &[40, 300, 5000] } else { &[2, 33, 40, 64, 300, 4096, 5000, 70_000] };
    for backend in [Backend::Mem, Backend::Sqlite] {
        for (li, &len) in lens.iter().enumerate() {
            for via in [Via::Lib, Via::Http] {
                if via == Via::Http && li != 1 {
                    continue;
                }
                // 12 edits per chain, all 256 edits over the chains of one length
                for group in 0..22u32 {
                    let fam = (li as u32 * 64 + group) << 8;
                    let spec = |e: u32| BytesSpec { len, class: 12, seed: fam | (e & 0xFF) };
                    let mut ops = vec![Op::AddVersion { c: 0, parent: IdRef::Nil, data: spec(0) }];
                    for k in 0..12u32 {
                        let e = (group * 12 + k) % 256;
                        ops.push(Op::AddVersion { c: 0, parent: IdRef::Latest(0), data: spec(e) });
                        if k % 3 == 1 {
                            ops.push(Op::AddSnapshot { c: 0, version: IdRef::Latest(0), data: spec(e + 1) });
                        }
                        if k % 3 == 2 {
                            // back to the unedited member: equal to the grandparent's bytes
                            ops.push(Op::AddVersion { c: 0, parent: IdRef::Latest(0), data: spec(0) });
                            ops.push(Op::AddSnapshot { c: 0, version: IdRef::Latest(0), data: spec(e) });
                        }
                    }
                    ops.push(Op::Reopen);
                    ops.push(Op::GetSnapshot { c: 0 });
                    out.push(crate::props::seq::HCase { backend, via, case: Case { cfg: Cfg::default(), salt: 6, nclients: 1, ops } });
                }
            }
        }
    }
    out
}

pub fn replay(kind: &str, case_json: &Value, st: &mut Stats) -> CheckResult {
    let bad = |e: serde_json::Error| Fail::Inconclusive(format!("bad replay file: {e}"));
    match kind {
        "payload" => check(&serde_json::from_value(case_json.clone()).map_err(bad)?, st),
        "limit" => check_limit(&serde_json::from_value(case_json.clone()).map_err(bad)?, false, st),
        "interleaved" => check_interleaved(&serde_json::from_value(case_json.clone()).map_err(bad)?, st),
        "history" => {
            let hc: crate::props::seq::HCase = serde_json::from_value(case_json.clone()).map_err(bad)?;
            let mut or = crate::hist::Oracles::default();
            or.c02 = true;
            or.c07 = true;
            or.c11 = true;
            crate::hist::run_history(&hc.case, hc.backend, hc.via, or, st)
        }
        _ => Err(Fail::Inconclusive(format!("unknown replay kind {kind}"))),
    }
}

// ---------------------------------------------------------------------------------------------
// Uploads in flight at the same time on one server worker: the pieces of several request bodies
// arrive interleaved in a generated order.  Each upload must still be stored as exactly its own
// bytes ("however the upload was split into network chunks").

#[derive(Clone, Debug, Serialize, Deserialize, PartialEq, Eq, Hash)]
pub struct ICase {
    pub backend: Backend,
    pub snapshot: bool,
    /// per upload: the payload and the sizes of the pieces it is sent in (cyclic)
    pub uploads: Vec<(BytesSpec, Vec<u32>)>,
    /// which connection sends its next piece (index modulo the number of uploads)
    pub order: Vec<u8>,
}

fn icase() -> BoxedStrategy<ICase> {
    (
        prop_oneof![Just(Backend::Mem), Just(Backend::Sqlite)],
        any::<bool>(),
        proptest::collection::vec(((prop_oneof![3 => 2u32..400, 2 => 1000u32..20_000, 1 => 60_000u32..200_000], 0u8..case::N_CLASSES, 0u32..65536), proptest::collection::vec(1u32..9000, 1..4)), 2..=3),
        proptest::collection::vec(0u8..3, 2..14),
    )
        .prop_map(|(backend, snapshot, ups, order)| ICase { backend, snapshot, uploads: ups.into_iter().map(|((len, class, seed), sizes)| (BytesSpec { len, class, seed }, sizes)).collect(), order })
        .boxed()
}

fn check_interleaved(ic: &ICase, st: &mut Stats) -> CheckResult {
    use std::io::{Read, Write};
    let cfg = Cfg::default();
    let sv = |e: anyhow::Error| Fail::Violation(format!("opening storage: {e:#}"));
    let (storage, _dir): (Arc<dyn Storage>, Option<TempDir>) = match ic.backend {
        Backend::Mem => (Arc::new(InMemoryStorage::new()), None),
        Backend::Sqlite => {
            let d = TempDir::new("c06i");
            let s = sqlite_factory(d.path().to_path_buf())().map_err(sv)?.served;
            (s, Some(d))
        }
    };
    let ws = WebServer::new(crate::driver::server_config(&cfg), None, ArcStorage(storage));
    let srv = SockServer::start(ws).map_err(|e| Fail::Inconclusive(format!("cannot start a socket server: {e:#}")))?;
    let to = Duration::from_secs(240);
    let n = ic.uploads.len();
    let clients: Vec<Uuid> = (0..n).map(|i| case::client_uuid(66, i as u8)).collect();
    let inconc = |e: SockError| Fail::Inconclusive(format!("socket: {e:?}"));
    // snapshots need a version to hang off
    let mut v1 = vec![Uuid::nil(); n];
    if ic.snapshot {
        for (i, c) in clients.iter().enumerate() {
            let r = exchange(srv.addr, &req_add_version(*c, Uuid::nil(), vec![Bytes::from_static(b"first")]), Encoding::ContentLength, &[], to).map_err(inconc)?;
            match decode(Endpoint::AddVersion, &r) {
                Outcome::Accepted { id, .. } => v1[i] = id,
                o => return v(format!("setting up: {}", o.short())),
            }
        }
    }
    // one connection per upload; its queue: the request head, then the body pieces
    let bodies: Vec<Vec<u8>> = ic.uploads.iter().map(|(s, _)| s.expand()).collect();
    let mut conns = vec![];
    let mut queues: Vec<std::collections::VecDeque<Vec<u8>>> = vec![];
    for i in 0..n {
        let s = std::net::TcpStream::connect_timeout(&srv.addr, to).map_err(|e| Fail::Inconclusive(format!("connect: {e}")))?;
        let _ = s.set_nodelay(true);
        let _ = s.set_read_timeout(Some(to));
        let _ = s.set_write_timeout(Some(to));
        conns.push(s);
        let (path, ct) = if ic.snapshot { (format!("/v1/client/add-snapshot/{}", v1[i]), crate::driver::CT_SNAP) } else { (format!("/v1/client/add-version/{}", Uuid::nil()), crate::driver::CT_HS) };
        let head = format!("POST {path} HTTP/1.1\r\nHost: x\r\nConnection: close\r\nX-Client-Id: {}\r\nContent-Type: {ct}\r\nContent-Length: {}\r\n\r\n", clients[i], bodies[i].len());
        let mut q = std::collections::VecDeque::new();
        q.push_back(head.into_bytes());
        let sizes = &ic.uploads[i].1;
        let mut pos = 0;
        let mut k = 0;
        // at least two pieces whenever the body allows
        let first_cap = (bodies[i].len() / 2).max(1);
        while pos < bodies[i].len() {
            let mut sz = (sizes[k % sizes.len()] as usize).max(1);
            if pos == 0 {
                sz = sz.min(first_cap);
            }
            k += 1;
            let end = (pos + sz).min(bodies[i].len());
            q.push_back(bodies[i][pos..end].to_vec());
            pos = end;
            if q.len() > 40 {
                q.push_back(bodies[i][pos..].to_vec());
                break;
            }
        }
        queues.push(q);
    }
    let mut send = |i: usize| -> Result<bool, Fail> {
        match queues[i].pop_front() {
            None => Ok(false),
            Some(piece) => {
                conns[i].write_all(&piece).and_then(|_| conns[i].flush()).map_err(|e| Fail::Inconclusive(format!("write: {e}")))?;
                // let the server take the piece in before the next one (of whichever upload) arrives
                std::thread::sleep(Duration::from_millis(3));
                Ok(true)
            }
        }
    };
    let mut interleavings = 0;
    let mut last = usize::MAX;
    for o in &ic.order {
        let i = *o as usize % n;
        if send(i)? {
            if last != usize::MAX && last != i {
                interleavings += 1;
            }
            last = i;
        }
    }
    for i in 0..n {
        while send(i)? {}
    }
    // responses
    for (i, c) in conns.iter_mut().enumerate() {
        let mut buf = vec![];
        let _ = c.read_to_end(&mut buf);
        let Some(r) = crate::sock::parse_response(&buf, false) else { return Err(Fail::Inconclusive(format!("upload {i}: no complete response"))) };
        if r.status != 200 {
            return v(format!("upload {i} of {n} concurrent uploads ({} bytes) was answered {}", bodies[i].len(), r.status));
        }
    }
    // every upload is stored as exactly its own bytes
    for i in 0..n {
        st.check();
        let back = if ic.snapshot { exchange(srv.addr, &req_get_snapshot(clients[i]), Encoding::ContentLength, &[], to) } else { exchange(srv.addr, &req_get_child(clients[i], Uuid::nil()), Encoding::ContentLength, &[], to) }.map_err(inconc)?;
        if back.status != 200 || back.body != bodies[i] {
            return v(format!(
                "{n} {} were in flight at the same time on one server worker, their body pieces arriving interleaved (send order {:?}); upload {i} ({} bytes) reads back as status {} with {}",
                if ic.snapshot { "snapshot uploads" } else { "version uploads" },
                ic.order,
                bodies[i].len(),
                back.status,
                describe_diff(&bodies[i], &back.body)
            ));
        }
    }
    st.label(&format!("c06:interleaved:{:?}:{}", ic.backend, if ic.snapshot { "snapshot" } else { "version" }));
    if interleavings >= 2 {
        st.nontrivial(&("c06-interleaved", ic.backend, ic.snapshot, ic.order.clone(), bodies.iter().map(|b| b.len()).collect::<Vec<_>>()));
    }
    Ok(())
}

//! C13 - all storage backends, and a reopened database, behave identically.

use crate::case::{self, fresh_uuid, BytesSpec, Case, GenParams, Op};
use crate::driver::{hash_bytes, mem_factory, sqlite_factory, Backend, TempDir, Via};
use crate::engine::{self, CheckResult, Fail, Report, Stats, Tier};
use crate::hist::{run_trace, Hist};
use proptest::prelude::*;
use serde::{Deserialize, Serialize};
use serde_json::Value;
use std::collections::{BTreeMap, BTreeSet};
use std::sync::Arc;
use taskchampion_sync_server_core::{Snapshot, Storage};
use uuid::Uuid;

// ---------------------------------------------------------------------------------------------
// Part A: protocol level, lock step on memory / SQLite / SQLite reopened

#[derive(Clone, Debug, Serialize, Deserialize)]
pub struct PCase {
    pub via: Via,
    pub case: Case,
}

fn canon_state(h: &Hist) -> Result<(Vec<String>, Vec<Option<i64>>), Fail> {
    let d = h.drv.api_dump(&h.clients, &h.ids).map_err(|e| Fail::Violation(format!("storage API failed while dumping final state: {e:#}")))?;
    let mut lines = vec![];
    let mut ts = vec![];
    for (k, c) in h.clients.iter().enumerate() {
        let cd = &d.clients[c];
        let lab = |id: &Uuid| h.label_id(*c, *id, false);
        let mut vs: Vec<String> = cd.versions.iter().map(|(id, (p, hsh, len))| format!("{}<-{}:{len}B:{hsh:016x}", lab(id), lab(p))).collect();
        vs.sort();
        let mut bp: Vec<String> = cd.by_parent.iter().map(|(p, id)| format!("{}=>{}", lab(p), lab(id))).collect();
        bp.sort();
        lines.push(format!(
            "client#{k}: exists={} latest={} snapshot={} versions=[{}] by_parent=[{}]",
            cd.exists,
            lab(&cd.latest),
            match &cd.snapshot {
                None => "none".to_string(),
                Some((v, _, since, data)) => format!("({}, since {since}, data {data:?})", lab(v)),
            },
            vs.join(" "),
            bp.join(" ")
        ));
        ts.push(cd.snapshot.as_ref().map(|s| s.1));
    }
    Ok((lines, ts))
}

fn check_protocol(pc: &PCase, st: &mut Stats) -> CheckResult {
    let case = &pc.case;
    let runs = [("memory", Backend::Mem, false), ("sqlite", Backend::Sqlite, false), ("sqlite-reopened", Backend::Sqlite, true)];
    let mut results = vec![];
    for (name, backend, reopen) in runs {
        let (lines, h) = run_trace(case, backend, pc.via, reopen, false, |_, _, _, _| Ok(())).map_err(|f| match f {
            Fail::Violation(m) => Fail::Violation(format!("[{name}] {m}")),
            o => o,
        })?;
        let (state, ts) = canon_state(&h)?;
        results.push((name, lines, state, ts, h.drv.reopens));
    }
    let (n0, l0, s0, t0, _) = &results[0];
    for (n, l, s, t, _) in &results[1..] {
        for (i, (a, b)) in l0.iter().zip(l.iter()).enumerate() {
            // Reopen lines differ by construction
            if a != b && !matches!(case.ops[i], Op::Reopen) {
                return Err(Fail::Violation(format!("op {i} ({:?}): backend {n0} answered {a}, backend {n} answered {b}", case.ops[i])));
            }
        }
        for (a, b) in s0.iter().zip(s.iter()) {
            if a != b {
                return Err(Fail::Violation(format!("final state differs: {n0}: {a} | {n}: {b}")));
            }
        }
        for (a, b) in t0.iter().zip(t.iter()) {
            match (a, b) {
                (None, None) => {}
                (Some(x), Some(y)) if (x - y).abs() <= 5 => {}
                _ => return Err(Fail::Violation(format!("final snapshot time differs by more than the run-to-run tolerance: {n0}: {a:?} {n}: {b:?}"))),
            }
        }
        st.check();
    }
    let reopens = results[2].4;
    let accepted_snap_then_version = {
        let mut seen_snap = false;
        let mut ok = false;
        for l in l0 {
            if l.starts_with("AddSnapshot:SnapshotOk") {
                seen_snap = true;
            }
            if seen_snap && l.starts_with("AddVersion:Accepted") {
                ok = true;
            }
        }
        ok && s0.iter().any(|s| !s.contains("snapshot=none"))
    };
    // a reopen between a write and a later read
    let mut wrote = false;
    let mut reopened_after_write = false;
    let mut read_after = false;
    for (i, op) in case.ops.iter().enumerate() {
        match op {
            Op::Reopen => {
                if wrote {
                    reopened_after_write = true;
                }
            }
            Op::GetChild { .. } | Op::GetSnapshot { .. } => {
                if reopened_after_write && (l0[i].contains("Found") || l0[i].contains("Snapshot(")) {
                    read_after = true;
                }
            }
            _ => {
                if l0[i].contains("Accepted") {
                    wrote = true;
                }
            }
        }
    }
    if reopens > 0 {
        st.label("c13:reopened");
    }
    if accepted_snap_then_version {
        st.label("c13:snapshot-then-version");
    }
    if accepted_snap_then_version && read_after {
        let shape: Vec<&str> = l0.iter().map(|l| l.split('(').next().unwrap_or("")).collect();
        st.nontrivial(&("c13p", shape, pc.via));
    }
    st.sample(|| serde_json::json!({"via": format!("{:?}", pc.via), "case": case, "answers": l0}));
    Ok(())
}

fn pcase(p: &GenParams) -> BoxedStrategy<PCase> {
    (prop_oneof![4 => Just(Via::Lib), 1 => Just(Via::Http)], case::case(p)).prop_map(|(via, case)| PCase { via, case }).boxed()
}

// ---------------------------------------------------------------------------------------------
// Part B: storage-trait level, within the documented preconditions of the contract

#[derive(Clone, Debug, Serialize, Deserialize)]
pub enum SOp {
    /// create the client (skipped if it exists); latest = nil or a fresh literal
    NewClient { c: u8, latest: Option<u32> },
    /// parent: 0 = the client's latest, 1 = nil, 2 = a literal (any of them skipped if that parent
    /// already has a child)
    AddVersion { c: u8, parent: u8, lit: u32, data: BytesSpec },
    /// version: 0 = latest, 1 = some stored version, 2 = a literal
    SetSnapshot { c: u8, version: u8, lit: u32, secs: i64, nanos: u32, since: u32, data: BytesSpec },
    GetClient { c: u8 },
    GetVersion { c: u8, which: u16 },
    GetByParent { c: u8, which: u16 },
    GetSnapshotData { c: u8 },
    Reopen,
}

#[derive(Clone, Debug, Serialize, Deserialize)]
pub struct SCase {
    pub ops: Vec<SOp>,
}

fn sop() -> impl Strategy<Value = SOp> {
    let c = || 0u8..3;
    prop_oneof![
        2 => (c(), proptest::option::of(0u32..4)).prop_map(|(c, latest)| SOp::NewClient { c, latest }),
        8 => (c(), prop_oneof![6 => Just(0u8), 1 => Just(1u8), 1 => Just(2u8)], 0u32..6, case::bytes_spec(40)).prop_map(|(c, parent, lit, data)| SOp::AddVersion { c, parent, lit, data }),
        4 => (c(), 0u8..3, 0u32..6,
              prop_oneof![1 => 0i64..4_000_000_000, 1 => 1_600_000_000i64..1_900_000_000, 1 => Just(0i64), 1 => -2_000_000_000i64..0],
              prop_oneof![1 => Just(0u32), 2 => 0u32..1_000_000_000],
              prop_oneof![3 => 0u32..5, 1 => 0u32..100_000, 1 => Just(u32::MAX - 1000)],
              case::bytes_spec(40))
            .prop_map(|(c, version, lit, secs, nanos, since, data)| SOp::SetSnapshot { c, version, lit, secs, nanos, since, data }),
        3 => c().prop_map(|c| SOp::GetClient { c }),
        3 => (c(), any::<u16>()).prop_map(|(c, which)| SOp::GetVersion { c, which }),
        3 => (c(), any::<u16>()).prop_map(|(c, which)| SOp::GetByParent { c, which }),
        2 => c().prop_map(|c| SOp::GetSnapshotData { c }),
        1 => Just(SOp::Reopen),
    ]
}

fn scase(max: usize) -> BoxedStrategy<SCase> {
    proptest::collection::vec(sop(), 1..=max).prop_map(|ops| SCase { ops }).boxed()
}

#[derive(Default)]
struct Pre {
    exists: BTreeSet<u8>,
    latest: BTreeMap<u8, Uuid>,
    /// per client: ids stored, parents that have a child
    versions: BTreeMap<u8, Vec<Uuid>>,
    parents: BTreeSet<(u8, Uuid)>,
    snap: BTreeMap<u8, Uuid>,
    /// every id ever mentioned (query candidates)
    mentioned: Vec<Uuid>,
    next_id: u32,
    all_version_ids: BTreeSet<Uuid>,
}

fn run_storage(case: &SCase, factory: &dyn Fn() -> anyhow::Result<crate::driver::Stores>, reopen: bool, labels: &mut Vec<&'static str>) -> Result<Vec<String>, Fail> {
    let sv = |e: anyhow::Error| Fail::Violation(format!("opening storage failed: {e:#}"));
    let mut storage: Arc<dyn Storage> = factory().map_err(sv)?.served;
    let mut pre = Pre::default();
    pre.mentioned.push(Uuid::nil());
    let mut out = vec![];
    let cid = |c: u8| case::client_uuid(77, c);
    for op in &case.ops {
        let line = match op {
            SOp::Reopen => {
                if reopen {
                    storage = factory().map_err(sv)?.served;
                    labels.push("reopen");
                }
                "Reopen".to_string()
            }
            SOp::NewClient { c, latest } => {
                if pre.exists.contains(c) {
                    "skip".to_string()
                } else {
                    let l = latest.map(|l| fresh_uuid(1000 + l)).unwrap_or(Uuid::nil());
                    pre.mentioned.push(l);
                    let r = (|| -> anyhow::Result<()> {
                        let mut t = storage.txn(cid(*c))?;
                        t.new_client(l)?;
                        t.commit()
                    })();
                    if r.is_ok() {
                        pre.exists.insert(*c);
                        pre.latest.insert(*c, l);
                    }
                    format!("NewClient:{}", r.is_ok())
                }
            }
            SOp::AddVersion { c, parent, lit, data } => {
                if !pre.exists.contains(c) {
                    "skip".to_string()
                } else {
                    let p = match parent {
                        0 => pre.latest.get(c).copied().unwrap_or(Uuid::nil()),
                        1 => Uuid::nil(),
                        _ => fresh_uuid(1000 + lit),
                    };
                    if pre.parents.contains(&(*c, p)) {
                        "skip".to_string()
                    } else {
                        pre.next_id += 1;
                        let id = fresh_uuid(50_000 + pre.next_id);
                        debug_assert!(!pre.all_version_ids.contains(&id));
                        let bytes = data.expand();
                        let r = (|| -> anyhow::Result<()> {
                            let mut t = storage.txn(cid(*c))?;
                            t.add_version(id, p, bytes.clone())?;
                            t.commit()
                        })();
                        pre.mentioned.push(p);
                        pre.mentioned.push(id);
                        if r.is_ok() {
                            pre.all_version_ids.insert(id);
                            pre.parents.insert((*c, p));
                            pre.versions.entry(*c).or_default().push(id);
                            pre.latest.insert(*c, id);
                            labels.push("add-version");
                            if pre.snap.contains_key(c) {
                                labels.push("add-version-after-snapshot");
                            }
                        }
                        format!("AddVersion:{}", r.is_ok())
                    }
                }
            }
            SOp::SetSnapshot { c, version, lit, secs, nanos, since, data } => {
                if !pre.exists.contains(c) {
                    "skip".to_string()
                } else {
                    let v = match version {
                        0 => pre.latest.get(c).copied().unwrap_or(Uuid::nil()),
                        1 => pre.versions.get(c).and_then(|v| v.get(*lit as usize % v.len().max(1))).copied().unwrap_or(Uuid::nil()),
                        _ => fresh_uuid(1000 + lit),
                    };
                    let ts = chrono::DateTime::<chrono::Utc>::from_timestamp(*secs, *nanos % 1_000_000_000).unwrap();
                    let bytes = data.expand();
                    let r = (|| -> anyhow::Result<()> {
                        let mut t = storage.txn(cid(*c))?;
                        t.set_snapshot(Snapshot { version_id: v, timestamp: ts, versions_since: *since }, bytes.clone())?;
                        t.commit()
                    })();
                    if r.is_ok() {
                        pre.snap.insert(*c, v);
                        labels.push("set-snapshot");
                        if *nanos % 1_000_000_000 != 0 {
                            labels.push("subsecond-time");
                        }
                    }
                    format!("SetSnapshot:{}", r.is_ok())
                }
            }
            SOp::GetClient { c } => {
                let r = (|| -> anyhow::Result<String> {
                    let mut t = storage.txn(cid(*c))?;
                    Ok(match t.get_client()? {
                        None => "none".to_string(),
                        Some(cl) => format!("latest={} snapshot={}", cl.latest_version_id, match cl.snapshot {
                            None => "none".to_string(),
                            Some(s) => format!("({}, {}s, since {})", s.version_id, s.timestamp.timestamp(), s.versions_since),
                        }),
                    })
                })();
                format!("GetClient:{}", r.unwrap_or_else(|e| format!("ERR {e:#}")))
            }
            SOp::GetVersion { c, which } | SOp::GetByParent { c, which } => {
                let id = pre.mentioned[(*which as usize * pre.mentioned.len()) >> 16];
                let by_parent = matches!(op, SOp::GetByParent { .. });
                let r = (|| -> anyhow::Result<String> {
                    let mut t = storage.txn(cid(*c))?;
                    let v = if by_parent { t.get_version_by_parent(id)? } else { t.get_version(id)? };
                    Ok(match v {
                        None => "none".to_string(),
                        Some(v) => format!("({}, parent {}, {}B:{:016x})", v.version_id, v.parent_version_id, v.history_segment.len(), hash_bytes(&v.history_segment)),
                    })
                })();
                if let Ok(s) = &r {
                    if s != "none" {
                        labels.push("version-read-back");
                    }
                }
                format!("{}:{}", if by_parent { "GetByParent" } else { "GetVersion" }, r.unwrap_or_else(|e| format!("ERR {e:#}")))
            }
            SOp::GetSnapshotData { c } => match pre.snap.get(c) {
                None => "skip".to_string(),
                Some(v) => {
                    let r = (|| -> anyhow::Result<String> {
                        let mut t = storage.txn(cid(*c))?;
                        Ok(match t.get_snapshot_data(*v)? {
                            None => "none".to_string(),
                            Some(d) => format!("{}B:{:016x}", d.len(), hash_bytes(&d)),
                        })
                    })();
                    labels.push("snapshot-read-back");
                    format!("GetSnapshotData:{}", r.unwrap_or_else(|e| format!("ERR {e:#}")))
                }
            },
        };
        out.push(line);
    }
    Ok(out)
}

fn check_storage(case: &SCase, st: &mut Stats) -> CheckResult {
    let mut l0 = vec![];
    let mem = mem_factory();
    let a = run_storage(case, &*mem, false, &mut l0)?;
    let d1 = TempDir::new("c13a");
    let f1 = sqlite_factory(d1.path().to_path_buf());
    let mut l1 = vec![];
    let b = run_storage(case, &*f1, false, &mut l1)?;
    let d2 = TempDir::new("c13b");
    let f2 = sqlite_factory(d2.path().to_path_buf());
    let mut l2 = vec![];
    let c = run_storage(case, &*f2, true, &mut l2)?;
    for (i, op) in case.ops.iter().enumerate() {
        if a[i] != b[i] {
            return Err(Fail::Violation(format!("storage op {i} ({op:?}): memory backend -> {} ; SQLite backend -> {}", a[i], b[i])));
        }
        if a[i] != c[i] {
            return Err(Fail::Violation(format!("storage op {i} ({op:?}): memory backend -> {} ; reopened SQLite backend -> {}", a[i], c[i])));
        }
        if a[i].contains("ERR") {
            return Err(Fail::Violation(format!("storage op {i} ({op:?}) inside the documented preconditions failed on every backend: {}", a[i])));
        }
    }
    st.check();
    for l in &l2 {
        st.label(&format!("c13s:{l}"));
    }
    if l2.contains(&"reopen") && l2.contains(&"add-version-after-snapshot") && (l2.contains(&"version-read-back") || l2.contains(&"snapshot-read-back")) {
        let shape: Vec<&str> = a.iter().map(|l| l.split(':').next().unwrap_or("")).collect();
        st.nontrivial(&("c13s", shape));
    }
    st.sample(|| serde_json::json!({"storage_ops": case, "answers": a}));
    Ok(())
}

// ---------------------------------------------------------------------------------------------
// Part C: the largest payloads the API lets through (100 MiB), storage level

#[derive(Clone, Debug, Serialize, Deserialize, PartialEq, Eq, Hash)]
pub struct ExtCase {
    pub snapshot: bool,
    /// payload length = 100 MiB + delta (delta <= 0)
    pub delta: i32,
    pub class: u8,
}

fn check_extreme(ec: &ExtCase, st: &mut Stats) -> CheckResult {
    let len = (100i64 * 1024 * 1024 + ec.delta as i64) as u32;
    let body = BytesSpec { len, class: ec.class, seed: 3 }.expand();
    let want = format!("{}B:{:016x}", body.len(), hash_bytes(&body));
    let run = |storage: Arc<dyn Storage>| -> Vec<String> {
        let c = case::client_uuid(13, 0);
        let v1 = fresh_uuid(1);
        let v2 = fresh_uuid(2);
        let mut out = vec![];
        let setup = (|| -> anyhow::Result<()> {
            let mut t = storage.txn(c)?;
            t.new_client(Uuid::nil())?;
            t.add_version(v1, Uuid::nil(), vec![1])?;
            t.commit()
        })();
        out.push(format!("setup:{}", setup.is_ok()));
        let w = (|| -> anyhow::Result<()> {
            let mut t = storage.txn(c)?;
            if ec.snapshot {
                t.set_snapshot(Snapshot { version_id: v1, timestamp: chrono::Utc::now(), versions_since: 0 }, body.clone())?;
            } else {
                t.add_version(v2, v1, body.clone())?;
            }
            t.commit()
        })();
        out.push(format!("write:{}", match &w { Ok(()) => "ok".to_string(), Err(e) => format!("ERR {e:#}") }));
        let r = (|| -> anyhow::Result<String> {
            let mut t = storage.txn(c)?;
            Ok(if ec.snapshot {
                match t.get_snapshot_data(v1)? {
                    None => "none".into(),
                    Some(d) => format!("{}B:{:016x}", d.len(), hash_bytes(&d)),
                }
            } else {
                match t.get_version_by_parent(v1)? {
                    None => "none".into(),
                    Some(v) => format!("{}B:{:016x}", v.history_segment.len(), hash_bytes(&v.history_segment)),
                }
            })
        })();
        out.push(format!("read:{}", r.unwrap_or_else(|e| format!("ERR {e:#}"))));
        out
    };
    let mem = mem_factory()().map_err(|e| Fail::Violation(format!("{e:#}")))?.served;
    let a = run(mem);
    let d = TempDir::new("c13x");
    let sq = sqlite_factory(d.path().to_path_buf())().map_err(|e| Fail::Violation(format!("{e:#}")))?.served;
    let b = run(sq);
    st.check();
    let what = format!("{} of 100 MiB{:+} bytes at storage level", if ec.snapshot { "snapshot" } else { "version" }, ec.delta);
    if a != b {
        return Err(Fail::Violation(format!("{what}: memory backend -> {a:?}; SQLite backend -> {b:?}")));
    }
    if a[2] != format!("read:{want}") {
        return Err(Fail::Violation(format!("{what}: both backends agree on {a:?}, but the payload does not read back ({want})")));
    }
    st.nontrivial(ec);
    st.label("c13x:limit-sized-payload");
    Ok(())
}

// ---------------------------------------------------------------------------------------------

pub fn run(tier: Tier, seed: u64) -> Report {
    let mut rep = Report::new(
        "C13",
        tier,
        seed,
        "exploration",
        "(A) generated protocol histories run in lock step on the memory backend, SQLite never reopened, and SQLite reopened at the generated points (library; HTTP for a fifth of the cases): answers op by op and final storage-API dumps must agree up to version-id renaming and snapshot seconds. (B) generated storage-trait sequences inside the documented preconditions (client exists, id new, parent childless; direct new_client(x)/set_snapshot with arbitrary metadata incl. sub-second times) on the same three configurations. Non-trivial: (A) an accepted snapshot followed by an accepted version and a reopen between a write and a later successful read; (B) a reopen, an add_version after set_snapshot, and a read-back. Distinct by answer-kind sequence.",
    );
    rep.assume("snapshot timestamps of different runs are compared with a 5 s tolerance (the runs execute one after the other)");
    let r = engine::replay_dir::<PCase, _>("C13", "protocol", check_protocol);
    rep.absorb("replay-tier-protocol", r);
    let r = engine::replay_dir::<SCase, _>("C13", "storage", check_storage);
    rep.absorb("replay-tier-storage", r);
    if rep.failed() {
        return rep;
    }
    let mut p = GenParams::default();
    p.max_ops = tier.pick(40, 120);
    p.w = [42, 14, 22, 8, 10, 4];
    p.big_permille = 6;
    p.empty_permille = 30;
    let total = tier.pick(6000, 60_000);
    let r = engine::explore("C13", "protocol", seed, total, || pcase(&p), check_protocol);
    rep.absorb("protocol-lockstep", r);
    if rep.failed() {
        return rep;
    }
    let mut pm = p.clone();
    pm.max_clients = 24;
    pm.min_ops = 30;
    pm.max_ops = tier.pick(70, 160);
    pm.big_permille = 0;
    let r = engine::explore("C13", "protocol", seed ^ 0x13, tier.pick(250, 3000), || pcase(&pm), check_protocol);
    rep.absorb("protocol-lockstep-up-to-24-clients", r);
    if rep.failed() {
        return rep;
    }
    let total = tier.pick(10_000, 100_000);
    let max = tier.pick(30, 80);
    let r = engine::explore("C13", "storage", seed, total, || scase(max), check_storage);
    rep.absorb("storage-contract-lockstep", r);
    if rep.failed() {
        return rep;
    }
    let mut cases = vec![];
    for snapshot in [false, true] {
        for delta in [0i32, -1, -200] {
            if tier == Tier::Quick && delta == -200 {
                continue;
            }
            cases.push(ExtCase { snapshot, delta, class: if snapshot { 5 } else { 2 } });
        }
    }
    let mut r = engine::enumerate_n("C13", "extreme", 4, cases, check_extreme);
    r.exhaustive = false;
    rep.absorb("largest-payloads-both-backends", r);
    rep
}

pub fn replay(kind: &str, case_json: &Value, st: &mut Stats) -> CheckResult {
    match kind {
        "protocol" => {
            let c: PCase = serde_json::from_value(case_json.clone()).map_err(|e| Fail::Inconclusive(format!("bad replay file: {e}")))?;
            check_protocol(&c, st)
        }
        "storage" => {
            let c: SCase = serde_json::from_value(case_json.clone()).map_err(|e| Fail::Inconclusive(format!("bad replay file: {e}")))?;
            check_storage(&c, st)
        }
        "extreme" => {
            let c: ExtCase = serde_json::from_value(case_json.clone()).map_err(|e| Fail::Inconclusive(format!("bad replay file: {e}")))?;
            check_extreme(&c, st)
        }
        _ => Err(Fail::Inconclusive(format!("unknown replay kind {kind}"))),
    }
}

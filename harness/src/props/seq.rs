//! Sequential, history-quantified properties: C01 C02 C07 C08 C10 C11 C18 (DESIGN.md section 3).

use crate::case::{self, BytesSpec, Case, Cfg, GenParams, IdRef, Op};
use crate::driver::{Backend, Via};
use crate::engine::{self, CheckResult, Fail, Report, Stats, Tier};
use crate::hist::{run_history, Oracles};
use proptest::prelude::*;
use serde::{Deserialize, Serialize};
use serde_json::Value;

#[derive(Clone, Debug, Serialize, Deserialize, PartialEq, Eq, Hash)]
pub struct HCase {
    pub backend: Backend,
    pub via: Via,
    pub case: Case,
}

pub fn hcase(p: &GenParams, http_share: u32) -> BoxedStrategy<HCase> {
    let lib = 100 - http_share;
    (
        prop_oneof![
            lib * 55 / 100 + 1 => Just((Backend::Mem, Via::Lib)),
            lib * 45 / 100 + 1 => Just((Backend::Sqlite, Via::Lib)),
            http_share * 55 / 100 + 1 => Just((Backend::Mem, Via::Http)),
            http_share * 45 / 100 + 1 => Just((Backend::Sqlite, Via::Http)),
        ],
        case::case(p),
    )
        .prop_map(|((backend, via), case)| HCase { backend, via, case })
        .boxed()
}

fn oracles(id: &str) -> Oracles {
    let mut o = Oracles::default();
    match id {
        "C01" => o.c01 = true,
        "C02" => o.c02 = true,
        "C07" => o.c07 = true,
        "C08" => o.c08 = true,
        "C10" => o.c10 = true,
        "C11" => o.c11 = true,
        "C18" => o.c18 = true,
        _ => {}
    }
    o
}

fn params(id: &str, tier: Tier) -> GenParams {
    let mut p = GenParams::default();
    p.max_ops = tier.pick(40, 120);
    p.empty_permille = 30;
    match id {
        "C01" => {
            p.w = [48, 10, 18, 6, 8, 2];
            p.foreign_pct = 20;
        }
        "C02" => {
            p.w = [60, 5, 20, 3, 6, 3];
            p.av_latest_pct = 55;
            p.foreign_pct = 20;
        }
        "C07" => {
            p.big_permille = 2;
            p.max_ops = tier.pick(30, 70);
            p.w = [45, 8, 22, 5, 10, 3];
        }
        "C08" => {
            p.big_permille = 3;
            p.empty_client_pct = 15;
            p.w = [65, 10, 15, 2, 5, 1];
            p.av_latest_pct = 45;
            p.foreign_pct = 20;
        }
        "C10" => {
            p.big_permille = 3;
            p.w = [45, 3, 40, 4, 5, 1];
            p.av_latest_pct = 88;
            p.max_clients = 2;
        }
        "C11" => {
            p.big_permille = 4;
            p.w = [42, 3, 40, 8, 5, 1];
            p.av_latest_pct = 88;
            p.max_clients = 2;
        }
        "C18" => {
            p.w = [35, 20, 28, 10, 4, 3];
            p.av_latest_pct = 60;
            p.foreign_pct = 20;
        }
        _ => {}
    }
    p
}

fn check(id: &str, hc: &HCase, st: &mut Stats) -> CheckResult {
    run_history(&hc.case, hc.backend, hc.via, oracles(id), st)
}

// ---------------------------------------------------------------------------------------------
// constructed small-scope scenarios (complete enumerations)

fn d(seed: u32) -> BytesSpec {
    BytesSpec { len: 3 + seed % 5, class: 2, seed }
}

/// Which snapshot exists before the operation under test.
#[derive(Clone, Copy, Debug, PartialEq, Eq)]
enum SnapAt {
    None,
    /// at the version with this index from the oldest (taken when it was the latest)
    Pos(usize),
    /// at the non-nil id the chain started from (only meaningful with a non-nil base)
    BaseCorner,
}

/// Build: client 1 gets two versions (so foreign ids exist); client 0 gets a chain of `n`
/// versions on a nil / non-nil base with the requested snapshot.
fn scenario_prefix(n: usize, base: u8, snap: SnapAt) -> Vec<Op> {
    let mut ops = vec![
        Op::AddVersion { c: 1, parent: IdRef::Nil, data: d(900) },
        Op::AddVersion { c: 1, parent: IdRef::Latest(1), data: d(901) },
        Op::AddSnapshot { c: 1, version: IdRef::Latest(1), data: d(902) },
    ];
    for i in 0..n {
        let parent = if i == 0 {
            match base {
                0 => IdRef::Nil,
                1 => IdRef::Fresh(100),
                // the chain starts from a version id that belongs to another client
                _ => IdRef::Latest(1),
            }
        } else {
            IdRef::Latest(0)
        };
        ops.push(Op::AddVersion { c: 0, parent, data: d(i as u32) });
        if i == 0 && snap == SnapAt::BaseCorner {
            ops.push(Op::AddSnapshot { c: 0, version: IdRef::Base(0), data: d(500) });
        }
        if snap == SnapAt::Pos(i) {
            ops.push(Op::AddSnapshot { c: 0, version: IdRef::Latest(0), data: d(501 + i as u32) });
        }
    }
    ops
}

fn id_choices(n: usize) -> Vec<IdRef> {
    let mut v = vec![IdRef::Nil, IdRef::Base(0), IdRef::Fresh(5), IdRef::Latest(1), IdRef::Ancestor(1, 1), IdRef::SnapVersion(1), IdRef::SnapVersion(0)];
    for back in 0..n {
        v.push(if back == 0 { IdRef::Latest(0) } else { IdRef::Ancestor(0, back as u8) });
    }
    // near misses of ids the server knows (one byte off at either end, half the id off): no
    // prefix, suffix or truncated comparison may take them for the real thing
    for back in 0..n.min(3) {
        v.push(IdRef::Near(0, back as u8, (back % 2) as u8));
        v.push(IdRef::Near(0, back as u8, 2 + (back % 2) as u8));
    }
    v
}

fn snap_choices(n: usize, base: u8) -> Vec<SnapAt> {
    let nonnil = base != 0;
    let mut s = vec![SnapAt::None];
    for j in 0..n {
        s.push(SnapAt::Pos(j));
    }
    if nonnil && n > 0 {
        s.push(SnapAt::BaseCorner);
    }
    s
}

fn small_scope(id: &str, max_n: usize) -> Vec<HCase> {
    let mut out = vec![];
    // C08 also through the HTTP handlers, and with a body well beyond any buffer a handler might
    // look at before the whole body has arrived
    let entries: &[(Via, bool)] = if id == "C08" { &[(Via::Lib, false), (Via::Http, false), (Via::Http, true), (Via::Lib, true)] } else { &[(Via::Lib, false)] };
    for backend in [Backend::Mem, Backend::Sqlite] {
        for n in 0..=max_n {
            for base in [0u8, 1, 2] {
                for snap in snap_choices(n, base) {
                    // n == 0: the client is unknown to the server, or registered with no versions
                    // (what the server leaves between the two transactions of a first AddVersion)
                    for registered in [false, true] {
                        if registered && (n > 0 || base != 0) {
                            continue;
                        }
                        for v in id_choices(n) {
                            for (via, big) in entries.iter().copied() {
                                if big && n > 2 {
                                    continue;
                                }
                                let mut ops = scenario_prefix(n, base, snap);
                                if registered {
                                    ops.push(Op::NewClient { c: 0 });
                                }
                                match id {
                                    "C10" | "C11" | "C18" => {
                                        ops.push(Op::AddSnapshot { c: 0, version: v.clone(), data: d(700) });
                                        // and once more: the same request again must now be declined or
                                        // keep replacing consistently (monotonicity over a sequence)
                                        ops.push(Op::AddSnapshot { c: 0, version: v.clone(), data: d(701) });
                                    }
                                    "C08" => {
                                        let data = if big { BytesSpec { len: 300_000 + 4099 * n as u32, class: 2, seed: 700 } } else { d(700) };
                                        ops.push(Op::AddVersion { c: 0, parent: v.clone(), data });
                                    }
                                    _ => unreachable!(),
                                }
                                out.push(HCase { backend, via, case: Case { cfg: Cfg::default(), salt: 1, nclients: 2, ops } });
                            }
                        }
                    }
                }
            }
        }
    }
    out
}

/// The window rule with heavy versions: chains of 5..=7 versions whose history segments weigh
/// megabytes (two weight profiles), every position asked for, with and without an older snapshot.
/// The rule speaks of positions in the chain only - what the versions weigh must not matter.
fn heavy_window(tier: Tier) -> Vec<HCase> {
    let mut out = vec![];
    let profiles: &[fn(usize) -> u32] = &[
        |i| 3_600_000 + 4099 * i as u32,
        |i| if i % 2 == 0 { 65_536 + i as u32 } else { 9_000_000 + 13 * i as u32 },
        |i| if i % 2 == 1 { 1_100_000 + i as u32 } else { 2_200_000 + 7 * i as u32 },
    ];
    for backend in [Backend::Mem, Backend::Sqlite] {
        for (pi, prof) in profiles.iter().enumerate() {
            for n in 5..=tier.pick(7usize, 8) {
                for snap in [SnapAt::None, SnapAt::Pos(0)] {
                    if pi == 2 && snap != SnapAt::None {
                        continue;
                    }
                    for back in 0..n {
                        let mut ops = vec![];
                        for i in 0..n {
                            let parent = if i == 0 { IdRef::Nil } else { IdRef::Latest(0) };
                            ops.push(Op::AddVersion { c: 0, parent, data: BytesSpec { len: prof(i), class: 2, seed: 40 + i as u32 } });
                            if snap == SnapAt::Pos(i) {
                                ops.push(Op::AddSnapshot { c: 0, version: IdRef::Latest(0), data: d(501) });
                            }
                        }
                        let v = if back == 0 { IdRef::Latest(0) } else { IdRef::Ancestor(0, back as u8) };
                        ops.push(Op::AddSnapshot { c: 0, version: v.clone(), data: d(700) });
                        ops.push(Op::AddSnapshot { c: 0, version: v, data: BytesSpec { len: 2_500_000, class: 2, seed: 701 } });
                        out.push(HCase { backend, via: Via::Lib, case: Case { cfg: Cfg::default(), salt: 1, nclients: 1, ops } });
                    }
                }
            }
        }
    }
    out
}

// ---------------------------------------------------------------------------------------------

fn rule(id: &str) -> &'static str {
    match id {
        "C01" => "(a) all scheduler-owned interleavings of small batches of overlapping AddVersion requests (a new client's first requests included; memory / one SQLite object / one SQLite object per request; handlers and library), the chain walked afterwards against the set of acknowledged versions; (a2) a slow storage: the database's write lock really held by another connection for fractions of, and a little more than, the lock-wait budget while an AddVersion that must be accepted is in flight (in process and over a socket) - whatever is answered, the chain read after a settle time holds exactly the acknowledged versions; (b) generated multi-client histories (all id classes, nil/non-nil base, snapshots, reopen) on memory+SQLite via library and HTTP; the chain of every client is walked through GetChildVersion against the log of acknowledged versions. Non-trivial: walked client has >=2 versions and the history holds a rejected AddVersion or an AddSnapshot; distinct by (per-op client, outcome class) shape, base kind, reopen count.",
        "C02" => "every AddVersion of generated histories is compared with the compare-and-append rule, id freshness, stored parent/payload, counter +1 iff snapshot; rejections with full-state dump before/after; plus histories of 200-230 clients through one server under a soft limit on open file descriptors (what is open plus 150). Non-trivial: a real rejection (parent class not latest on a non-empty chain) or an accept on a client holding a snapshot; distinct by (state class, parent class, chain length bucket).",
        "C07" => "(a) two clients' overlapping requests under all scheduler-owned interleavings (lock probes included): each client is answered as on its own and every acknowledged version is served unaltered afterwards; (b) after every op of a generated history every acknowledged version of every client is re-read through GetChildVersion(parent). Non-trivial: a re-read after a later op; distinct by (version position, chain length bucket, class of the later op, snapshot present).",
        "C08" => "every AddVersion(p) of generated histories is preceded by GetChildVersion(p) on the same state and the pair is checked against the found / not-found<=>accept / gone<=>reject relation and the model; plus the complete small-scope table (chain 0..6, and the registered-but-empty client, x base kind x snapshot position x p class x library/HTTP x small/300 KB body). Non-trivial: probe on a non-empty chain with p not the latest; distinct by (state class, p class).",
        "C10" => "complete small-scope enumeration (chain 0..9 x nil/non-nil base x every reachable snapshot position incl. base corner x every v class incl. each position, nil, base, fresh, foreign; both backends), the window positions again on chains of 5..8 versions weighing 64 KiB..9 MB each (three weight profiles), plus AddSnapshot ops in long random histories; after each AddSnapshot storage must show a clean replacement exactly when the window rule holds, else be untouched (full dump). Non-trivial: v is 5th/6th most recent, or a snapshot exists and v differs from it, or v is foreign/base; distinct by (n, base kind, snapshot position, v class, v position).",
        "C11" => "(a) all scheduler-owned interleavings (gate before every storage call) of AddSnapshot overlapping GetSnapshot and AddVersion on memory / one SQLite object / one SQLite object per request, via HTTP handlers and library: every GetSnapshot answer is the id and bytes of one upload, never an error, and the snapshot left behind is a usable base; (b) histories dense in AddVersion/AddSnapshot; GetSnapshot after every op must equal the most recently accepted upload (id and bytes from the same upload); after accepted snapshots and at the end the chain is walked from the snapshot version to the latest. Non-trivial: a walk of >=1 step after >=2 accepted snapshots or after a declined AddSnapshot; distinct by (chain length, walk length, accepted count, base kind).",
        "C18" => "(a) the request grammar of C15 (malformed ids, media types, bodies, broken transfers, unknown routes and methods, conflicts, reads) against servers holding state: whatever is not answered with a success, and every read, must leave the full dump unchanged; (b) full state dump (raw SQL for SQLite, storage API over all known ids for memory) before and after every GetChildVersion, GetSnapshot, conflicting AddVersion and declined AddSnapshot of generated histories. Non-trivial: the op's client holds a snapshot or >=2 clients hold data; distinct by (op/outcome, state class, holders, chain length bucket).",
        _ => "",
    }
}

pub fn run(id: &str, tier: Tier, seed: u64) -> Report {
    let id_static: &'static str = match id {
        "C01" => "C01",
        "C02" => "C02",
        "C07" => "C07",
        "C08" => "C08",
        "C10" => "C10",
        "C11" => "C11",
        _ => "C18",
    };
    let id = id_static;
    let mut rep = Report::new(id, tier, seed, "exploration", rule(id));
    rep.assume("version ids issued by the server are compared through the log of acknowledged responses; the harness's own read probes (GetChildVersion/GetSnapshot/storage API reads) are assumed not to mutate state, which C18 checks separately");
    rep.assume("memory backend 'reopen' is a no-op (nothing to reopen); SQLite databases live in private directories under /dev/shm");

    // replay tier: committed failing cases and golden cases
    let r = engine::replay_dir::<HCase, _>(id, "history", |hc, st| check(id, hc, st));
    rep.absorb("replay-tier", r);
    if rep.failed() {
        return rep;
    }

    // complete small-scope enumerations
    if id == "C10" || id == "C08" || id == "C11" || id == "C18" {
        // (C11: the same constructed states - every snapshot the server keeps, in every one of
        // them, must be a usable base, including chains started from another client's version)
        let max_n = if id == "C10" { tier.pick(9, 11) } else { tier.pick(6, 9) };
        let cases = small_scope(id, max_n);
        let r = engine::enumerate(id, "history", cases, |hc, st| check(id, hc, st));
        rep.absorb("small-scope-exhaustive", r);
        if rep.failed() {
            return rep;
        }
    }

    if id == "C10" || id == "C11" {
        // the same rule on chains whose versions weigh megabytes
        let r = engine::enumerate(id, "history", heavy_window(tier), |hc, st| check(id, hc, st));
        rep.absorb("heavy-window", r);
        if rep.failed() {
            return rep;
        }
    }

    if id == "C11" {
        // the "overlapping" half of the quantifier, under the controlled scheduler
        crate::props::conc::c11_overlap_subrun(&mut rep, tier);
        if rep.failed() {
            return rep;
        }
    }

    if id == "C01" {
        // "always": also when the accepted requests overlapped in time
        crate::props::conc::c01_overlap_subrun(&mut rep, tier);
        if rep.failed() {
            return rep;
        }
        // ... and when the storage was slow to take the accepted version
        crate::props::conc::slow_lock_subrun(&mut rep, tier);
        if rep.failed() {
            return rep;
        }
    }

    if id == "C07" {
        // "regardless of ... other clients' activity": also when that activity overlaps in time
        crate::props::conc::two_clients_subrun("C07", &mut rep, tier);
        if rep.failed() {
            return rep;
        }
        // ... and one client's own overlapping uploads: none of the acknowledged ones is dropped
        crate::props::conc::overlap_subrun("C07", &mut rep, tier);
        if rep.failed() {
            return rep;
        }
    }

    if id == "C01" || id == "C11" || id == "C08" {
        // long chains (hundreds of versions, past every one-byte counter; thousands in memory,
        // past every two-byte one and any walk limit), walked at the end
        let mut cases = vec![];
        for (backend, via, n) in [
            (Backend::Mem, Via::Lib, tier.pick(300usize, 1500)),
            (Backend::Mem, Via::Http, tier.pick(0usize, 1500)),
            (Backend::Sqlite, Via::Lib, tier.pick(300usize, 1500)),
            (Backend::Sqlite, Via::Http, tier.pick(300usize, 1500)),
            (Backend::Mem, Via::Lib, tier.pick(4300usize, 12_000)),
            (Backend::Sqlite, Via::Lib, tier.pick(0usize, 4300)),
        ] {
            {
                if n == 0 || (id == "C08" && n < 4000) {
                    continue;
                }
                let mut ops = vec![];
                for i in 0..n {
                    ops.push(Op::AddVersion { c: 0, parent: if i == 0 { IdRef::Fresh(100) } else { IdRef::Latest(0) }, data: d(i as u32) });
                    if i % 97 == 5 {
                        ops.push(Op::AddSnapshot { c: 0, version: IdRef::Ancestor(0, (i % 4) as u8), data: d(5000 + i as u32) });
                    }
                    if i % 131 == 7 {
                        ops.push(Op::AddVersion { c: 0, parent: IdRef::Ancestor(0, 3), data: d(9000 + i as u32) });
                        ops.push(Op::Reopen);
                    }
                }
                // at the very end: the children of the chain's base, of nil and of an old version
                ops.push(Op::GetChild { c: 0, parent: IdRef::Base(0) });
                ops.push(Op::GetChild { c: 0, parent: IdRef::Nil });
                ops.push(Op::GetChild { c: 0, parent: IdRef::Ancestor(0, 250) });
                cases.push(HCase { backend, via, case: Case { cfg: Cfg { snapshot_days: 14, snapshot_versions: 100 }, salt: 2, nclients: 1, ops } });
            }
        }
        if id == "C01" && tier == Tier::Thorough {
            // volume: more than a gibibyte of history in the in-memory backend (twelve versions of
            // 95 MiB through the library; about 2.5 GB of RAM while it runs)
            let mut ops = vec![];
            for i in 0..12u32 {
                ops.push(Op::AddVersion { c: 0, parent: if i == 0 { IdRef::Nil } else { IdRef::Latest(0) }, data: BytesSpec { len: 95 << 20, class: 0, seed: i } });
            }
            ops.push(Op::GetChild { c: 0, parent: IdRef::Latest(0) });
            cases.push(HCase { backend: Backend::Mem, via: Via::Lib, case: Case { cfg: Cfg::default(), salt: 2, nclients: 1, ops } });
        }
        let mut r = engine::enumerate(id, "history", cases, |hc, st| check(id, hc, st));
        r.exhaustive = false;
        rep.absorb("long-chains", r);
        if rep.failed() {
            return rep;
        }
    }

    if id == "C02" {
        // many clients through one long-lived server that may hold only a few hundred file
        // descriptors (an ordinary service limit is 1024; here: what is open plus 150): every
        // client's first AddVersion and the next on its latest must be accepted, whatever the
        // number of clients served before
        let mut cases = vec![];
        for (backend, via, n) in [(Backend::Sqlite, Via::Lib, 230u8), (Backend::Sqlite, Via::Http, 200), (Backend::Mem, Via::Lib, 230)] {
            let mut ops = vec![];
            for c in 0..n {
                ops.push(Op::AddVersion { c, parent: if c % 3 == 0 { IdRef::Fresh(100) } else { IdRef::Nil }, data: d(c as u32) });
                ops.push(Op::AddVersion { c, parent: IdRef::Latest(c), data: d(1000 + c as u32) });
                if c % 5 == 1 {
                    ops.push(Op::AddVersion { c, parent: IdRef::Ancestor(c, 1), data: d(2000 + c as u32) });
                    ops.push(Op::AddSnapshot { c, version: IdRef::Latest(c), data: d(3000 + c as u32) });
                }
                if c % 7 == 2 && c > 0 {
                    ops.push(Op::AddVersion { c: c / 2, parent: IdRef::Latest(c / 2), data: d(4000 + c as u32) });
                }
            }
            for c in [0u8, 1, n / 2, n - 1] {
                ops.push(Op::AddVersion { c, parent: IdRef::Latest(c), data: d(5000 + c as u32) });
                ops.push(Op::GetChild { c, parent: IdRef::Base(c) });
            }
            cases.push(HCase { backend, via, case: Case { cfg: Cfg { snapshot_days: 14, snapshot_versions: 100 }, salt: 2, nclients: n, ops } });
        }
        let mut r = engine::enumerate(id, "few-descriptors", cases, |hc, st| with_few_descriptors(|| check(id, hc, st)));
        r.exhaustive = false;
        rep.absorb("many-clients-few-descriptors", r);
        if rep.failed() {
            return rep;
        }
    }

    if id == "C18" {
        // "any refused request": the request grammar of C15/C20 with C18's own oracle
        crate::props::http::c18_raw_subrun(&mut rep, tier, seed);
        if rep.failed() {
            return rep;
        }
    }

    let p = params(id, tier);
    let total: u64 = match id {
        "C07" => tier.pick(6000, 60_000),
        "C18" => tier.pick(9000, 80_000),
        _ => tier.pick(12_000, 100_000),
    };
    let r = engine::explore(id, "history", seed, total, || hcase(&p, 25), |hc: &HCase, st| check(id, hc, st));
    rep.absorb("random-histories", r);
    rep
}

/// Run `f` with the soft limit on open file descriptors lowered to what this process has open
/// now plus 150; restored afterwards.
fn with_few_descriptors<T>(f: impl FnOnce() -> T) -> T {
    let open = std::fs::read_dir("/proc/self/fd").map(|d| d.count()).unwrap_or(64) as u64;
    let mut old = libc::rlimit { rlim_cur: 0, rlim_max: 0 };
    // SAFETY: plain libc calls on a local struct
    let have = unsafe { libc::getrlimit(libc::RLIMIT_NOFILE, &mut old) } == 0;
    if have {
        let want = libc::rlimit { rlim_cur: (open + 150).min(old.rlim_max), rlim_max: old.rlim_max };
        unsafe { libc::setrlimit(libc::RLIMIT_NOFILE, &want) };
    }
    let out = f();
    if have {
        unsafe { libc::setrlimit(libc::RLIMIT_NOFILE, &old) };
    }
    out
}

pub fn replay(id: &str, kind: &str, case: &Value, st: &mut Stats) -> CheckResult {
    match kind {
        "few-descriptors" => {
            let hc: HCase = serde_json::from_value(case.clone()).map_err(|e| Fail::Inconclusive(format!("bad replay file: {e}")))?;
            with_few_descriptors(|| check(id, &hc, st))
        }
        "history" => {
            let hc: HCase = serde_json::from_value(case.clone()).map_err(|e| Fail::Inconclusive(format!("bad replay file: {e}")))?;
            check(id, &hc, st)
        }
        "slow-lock" if id == "C01" => crate::props::conc::slow_lock_replay(case, st),
        "overlap" if id == "C11" => crate::props::conc::c11_replay(case, st),
        "overlap" if id == "C01" || id == "C07" => crate::props::conc::c01_replay(case, st),
        "raw" if id == "C18" => crate::props::http::c18_raw_replay(case, st),
        "two-clients" if id == "C07" => crate::props::conc::two_clients_replay(case, st),
        _ => Err(Fail::Inconclusive(format!("unknown replay kind {kind}"))),
    }
}

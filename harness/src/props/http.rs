//! HTTP-level properties: C14 (responses encode outcomes exactly), C15 (malformed / oversized
//! requests are refused and change nothing), C16 (allow-list), C20 (every response forbids caching).

use crate::case::{self, BytesSpec, Case, GenParams, IdRef, Op};
use crate::driver::{cut, diff_dumps, mem_factory, sqlite_factory, Backend, Driver, HttpReq, HttpResp, Outcome, TempDir, Via, CT_HS, CT_SNAP};
use crate::engine::{self, CheckResult, Fail, Report, Stats, Tier};
use crate::hist::{client_meta, Hist, Oracles};
use crate::model::{AvPred, GcPred, SnapPred};
use crate::wrap;
use bytes::Bytes;
use proptest::prelude::*;
use serde::{Deserialize, Serialize};
use serde_json::Value;
use std::collections::HashSet;
use std::sync::{Arc, Mutex};
use uuid::Uuid;

pub const LIMIT: usize = 100 * 1024 * 1024;

fn v<T>(m: String) -> Result<T, Fail> {
    Err(Fail::Violation(m))
}

// ---------------------------------------------------------------------------------------------
// request grammar

#[derive(Clone, Copy, Debug, Serialize, Deserialize, PartialEq, Eq, Hash)]
pub enum Route {
    AddVersion,
    GetChild,
    AddSnapshot,
    GetSnapshot,
    Index,
    /// clearly not a route of the server
    NearMiss(u8),
    /// the route with a trailing slash (tolerated either way)
    TrailingSlash(u8),
}

const METHODS: [&str; 7] = ["GET", "POST", "PUT", "DELETE", "HEAD", "PATCH", "OPTIONS"];

#[derive(Clone, Copy, Debug, Serialize, Deserialize, PartialEq, Eq, Hash)]
pub enum IdForm {
    Canonical,
    Upper,
    Simple,
    Braced,
    Urn,
    WrongLength,
    NonHex,
    Empty,
    /// header only
    Absent,
    /// header only: bytes above 0x7F
    NonAscii,
    /// header only: two X-Client-Id headers (the canonical one first)
    Duplicate,
    /// path only: hyphens percent-encoded
    PercentHyphen,
    /// path only: an extra segment after the id
    ExtraSegment,
    /// header only: not an id at all - a long, valid UTF-8 text with multi-byte characters (so that
    /// every byte offset from 60 to 70 falls inside a character for one of its variants)
    LongUtf8(u8),
    /// header only: two X-Client-Id headers, the first one malformed, the canonical one second
    DuplicateBadFirst,
    /// header only: no X-Client-Id at all, but the (well-formed) id travels somewhere else in the
    /// request - Authorization (Bearer, Basic), Cookie, a look-alike header name, Forwarded
    Elsewhere(u8),
    /// path only: a percent-encoded control byte or other byte no id contains (%0A, %0D, %00,
    /// %7F, %20, %C3%A9), alone, inside, or after a complete id
    PercentOdd(u8),
    /// path only: several thousand characters
    Long,
}

#[derive(Clone, Copy, Debug, Serialize, Deserialize, PartialEq, Eq, Hash)]
pub enum CtForm {
    Right,
    RightWithParams,
    OtherCase,
    Wrong,
    /// the other endpoint's content type
    Swapped,
    Absent,
    NonUtf8,
}

#[derive(Clone, Debug, Serialize, Deserialize, PartialEq, Eq, Hash)]
pub enum BodyForm {
    /// no payload at all
    None,
    /// a payload consisting of empty chunks only
    EmptyChunks(u8),
    Data { spec: BytesSpec, sizes: Vec<u32> },
    /// a body whose transfer fails after `after` good chunks (the HTTP layer reports a payload
    /// error of kind `kind` to the handler; over a socket: garbage where a chunk size belongs)
    Broken { spec: BytesSpec, sizes: Vec<u32>, after: u8, kind: u8 },
}

#[derive(Clone, Debug, Serialize, Deserialize, PartialEq, Eq, Hash)]
pub struct RawReq {
    pub route: Route,
    pub method: u8,
    pub client: u8,
    pub cid: IdForm,
    pub idref: IdRef,
    pub pid: IdForm,
    pub ct: CtForm,
    pub body: BodyForm,
    /// send a Content-Length header with the body length (a real unchunked upload does)
    #[serde(default)]
    pub announce_len: bool,
    /// make the request as HTTP/1.0 (what many reverse proxies speak to their upstreams)
    #[serde(default)]
    pub http10: bool,
    /// index of a set of protocol-irrelevant request headers (0 = none)
    #[serde(default)]
    pub extra: u8,
    /// k > 0: the k-th letter of the fixed part of a protocol route ("/v1/client/<name>") is
    /// written percent-encoded (%63 for c, ...): another spelling of the same path
    #[serde(default)]
    pub spell: u8,
}

#[derive(Clone, Copy, Debug, PartialEq, Eq, Hash)]
pub enum Expect {
    /// malformed by the statement's list: 4xx and nothing changes
    Refuse,
    /// a form the statement does not rule on: refused (4xx, no change) or served as the canonical request
    Either,
    /// well-formed: served
    Serve,
    /// tolerated: anything but a 5xx
    Tolerant,
    /// GET / : 200
    Index,
}

fn id_text(u: Uuid, f: IdForm, in_path: bool) -> Option<Vec<u8>> {
    let canon = u.hyphenated().to_string();
    Some(match f {
        IdForm::Canonical | IdForm::Duplicate | IdForm::ExtraSegment => canon.into_bytes(),
        IdForm::Upper => canon.to_uppercase().into_bytes(),
        IdForm::Simple => u.simple().to_string().into_bytes(),
        IdForm::Braced => {
            if in_path {
                format!("%7B{canon}%7D").into_bytes()
            } else {
                format!("{{{canon}}}").into_bytes()
            }
        }
        IdForm::Urn => format!("urn:uuid:{canon}").into_bytes(),
        IdForm::WrongLength => canon[..canon.len() - 1].as_bytes().to_vec(),
        IdForm::NonHex => {
            let mut b = canon.into_bytes();
            b[3] = b'g';
            b
        }
        IdForm::Empty => vec![],
        IdForm::Absent | IdForm::Elsewhere(_) => return None,
        IdForm::NonAscii => {
            let mut b = canon.into_bytes();
            b[0] = 0xE9;
            b[1] = 0xFF;
            b
        }
        IdForm::PercentHyphen => canon.replace('-', "%2D").into_bytes(),
        IdForm::LongUtf8(k) => format!("{}{}", "x".repeat((k % 3) as usize), ["\u{e9}", "\u{65e5}", "\u{1F600}"][(k as usize / 3) % 3].repeat(60)).into_bytes(),
        IdForm::DuplicateBadFirst => b"not-an-id".to_vec(),
        IdForm::PercentOdd(k) => {
            let odd = ["%0A", "%0D", "%00", "%7F", "%20", "%C3%A9", "%09", "%1B"][(k as usize / 3) % 8];
            match k % 3 {
                0 => odd.to_string(),
                1 => format!("{}{odd}{}", &canon[..18], &canon[18..]),
                _ => format!("{canon}{odd}"),
            }
            .into_bytes()
        }
        IdForm::Long => canon.repeat(120).into_bytes(),
    })
}

fn b64(data: &[u8]) -> String {
    const T: &[u8; 64] = b"ABCDEFGHIJKLMNOPQRSTUVWXYZabcdefghijklmnopqrstuvwxyz0123456789+/";
    let mut out = String::new();
    for c in data.chunks(3) {
        let n = (c[0] as u32) << 16 | (*c.get(1).unwrap_or(&0) as u32) << 8 | *c.get(2).unwrap_or(&0) as u32;
        out.push(T[(n >> 18) as usize & 63] as char);
        out.push(T[(n >> 12) as usize & 63] as char);
        out.push(if c.len() > 1 { T[(n >> 6) as usize & 63] as char } else { '=' });
        out.push(if c.len() > 2 { T[n as usize & 63] as char } else { '=' });
    }
    out
}

fn id_form_class(f: IdForm) -> Expect {
    match f {
        IdForm::Canonical => Expect::Serve,
        IdForm::Upper | IdForm::Simple | IdForm::Braced | IdForm::Urn | IdForm::Duplicate | IdForm::PercentHyphen => Expect::Either,
        _ => Expect::Refuse,
    }
}

fn worst(a: Expect, b: Expect) -> Expect {
    use Expect::*;
    match (a, b) {
        (Refuse, _) | (_, Refuse) => Refuse,
        (Tolerant, _) | (_, Tolerant) => Tolerant,
        (Either, _) | (_, Either) => Either,
        _ => Serve,
    }
}

const NEAR_MISS: [&str; 10] = [
    "/v1/client/add-version",
    "/v1/client/get-child-version",
    "/v1/client/add-snapshot",
    "/v1/client/snapshots",
    "/v2/client/snapshot",
    "/v1/clients/snapshot",
    "/v1/client/snapshot/extra",
    "/v1/client",
    "/index.html",
    "/v1/client/add-version/%ID%/%ID%",
];

/// Paths a server may or may not take for a protocol route (nothing is demanded beyond "no 5xx,
/// no crash" and, for C20, the header): trailing slashes, empty and dot segments, another case,
/// matrix parameters, and - on the two read routes only, because they may well be served - a
/// query string.
const TRAILING: [&str; 13] = [
    "/v1/client/snapshot/",
    "/v1/client/add-version/%ID%/",
    "/v1/client/get-child-version/%ID%/",
    "//v1/client/snapshot",
    "/v1//client/snapshot",
    "/v1/./client/snapshot",
    "/v1/client/../client/snapshot",
    "/V1/CLIENT/snapshot",
    "/v1/client/snapshot;v=1",
    "/v1/client/snapshot?x=1&y=%41",
    "/v1/client/get-child-version/%ID%?parent=%ID%",
    "/v1/client/add-snapshot/%ID%/",
    "/v1/client/snapshot?",
];

pub struct Built {
    pub req: HttpReq,
    pub expect: Expect,
    pub endpoint: Option<Route>,
    pub body: Bytes,
    pub reasons: Vec<&'static str>,
}

/// Turn the symbolic request into an actual one and classify it by the statement's list.
pub fn build(r: &RawReq, client: Uuid, other: Uuid, id: Uuid) -> Built {
    let method = METHODS[r.method as usize % METHODS.len()];
    let canon = id.hyphenated().to_string();
    let pid = id_text(id, r.pid, true).unwrap_or_default();
    let pid = String::from_utf8_lossy(&pid).into_owned();
    let (path, has_id, want_method, is_write) = match r.route {
        Route::AddVersion => (format!("/v1/client/add-version/{pid}"), true, "POST", true),
        Route::GetChild => (format!("/v1/client/get-child-version/{pid}"), true, "GET", false),
        Route::AddSnapshot => (format!("/v1/client/add-snapshot/{pid}"), true, "POST", true),
        Route::GetSnapshot => ("/v1/client/snapshot".to_string(), false, "GET", false),
        Route::Index => ("/".to_string(), false, "GET", false),
        Route::NearMiss(k) => (NEAR_MISS[k as usize % NEAR_MISS.len()].replace("%ID%", &canon), false, "", false),
        Route::TrailingSlash(k) => (TRAILING[k as usize % TRAILING.len()].replace("%ID%", &canon), false, "", false),
    };
    let path = if has_id && r.pid == IdForm::ExtraSegment { format!("{path}/extra") } else { path };
    let mut respelled = false;
    let path = if r.spell > 0 && matches!(r.route, Route::AddVersion | Route::GetChild | Route::AddSnapshot | Route::GetSnapshot) {
        // the fixed part ends before the id segment
        let fixed_len = if has_id { path[..path.len() - pid.len() - if r.pid == IdForm::ExtraSegment { 6 } else { 0 }].len() } else { path.len() };
        let letters: Vec<usize> = path.char_indices().take_while(|(i, _)| *i < fixed_len).filter(|(_, c)| c.is_ascii_alphanumeric() || *c == '-').map(|(i, _)| i).collect();
        if letters.is_empty() {
            path
        } else {
            let at = letters[(r.spell as usize - 1) % letters.len()];
            respelled = true;
            format!("{}%{:02X}{}", &path[..at], path.as_bytes()[at], &path[at + 1..])
        }
    } else {
        path
    };
    let mut reasons = vec![];
    let mut expect = Expect::Serve;
    let mut endpoint = None;
    match r.route {
        Route::NearMiss(_) => {
            expect = Expect::Refuse;
            reasons.push("unknown-route");
        }
        Route::TrailingSlash(_) => expect = Expect::Tolerant,
        Route::Index => {
            if method == "GET" {
                expect = Expect::Index;
            } else {
                expect = Expect::Refuse;
                reasons.push("wrong-method");
            }
        }
        _ => {
            if method != want_method {
                expect = Expect::Refuse;
                reasons.push("wrong-method");
            } else {
                endpoint = Some(r.route);
            }
        }
    }
    if respelled && expect == Expect::Serve {
        // the same path by RFC 3986 (unreserved characters may be percent-encoded): served like
        // the plain spelling, or refused - never anything else
        expect = Expect::Either;
    }
    let mut headers: Vec<(String, Vec<u8>)> = vec![];
    match id_text(client, r.cid, false) {
        None => {
            if let IdForm::Elsewhere(k) = r.cid {
                // the id of the client with data (or, odd k, of the other one)
                let who = if k % 2 == 0 { client } else { other };
                let t = who.hyphenated().to_string();
                let (n, v): (&str, String) = match (k / 2) % 9 {
                    0 => ("Authorization", format!("Bearer {t}")),
                    1 => ("Authorization", format!("Basic {}", b64(format!("{t}:").as_bytes()))),
                    2 => ("Cookie", format!("client_id={t}; X-Client-Id={t}")),
                    3 => ("Client-Id", t),
                    4 => ("X-Client", t),
                    5 => ("X-ClientId", t),
                    6 => ("X_Client_Id", t),
                    7 => ("X-Client-Id-Override", t),
                    _ => ("Proxy-Authorization", format!("Bearer {t}")),
                };
                headers.push((n.into(), v.into_bytes()));
            }
        }
        Some(t) => {
            headers.push(("X-Client-Id".into(), t));
            if r.cid == IdForm::Duplicate {
                headers.push(("X-Client-Id".into(), other.to_string().into_bytes()));
            }
            if r.cid == IdForm::DuplicateBadFirst {
                headers.push(("X-Client-Id".into(), client.to_string().into_bytes()));
            }
        }
    }
    let right_ct = if r.route == Route::AddSnapshot { CT_SNAP } else { CT_HS };
    let other_ct = if r.route == Route::AddSnapshot { CT_HS } else { CT_SNAP };
    let ct: Option<Vec<u8>> = match r.ct {
        CtForm::Right => Some(right_ct.as_bytes().to_vec()),
        CtForm::RightWithParams => Some(format!("{right_ct}; charset=utf-8").into_bytes()),
        CtForm::OtherCase => Some(right_ct.to_uppercase().into_bytes()),
        CtForm::Wrong => Some(b"application/octet-stream".to_vec()),
        CtForm::Swapped => Some(other_ct.as_bytes().to_vec()),
        CtForm::Absent => None,
        CtForm::NonUtf8 => Some(vec![0xFF, 0xFE, b'/', 0x80]),
    };
    if let Some(ct) = ct {
        headers.push(("Content-Type".into(), ct));
    }
    let mut broken = false;
    let (body, chunks): (Bytes, Vec<Bytes>) = match &r.body {
        BodyForm::None => (Bytes::new(), vec![]),
        BodyForm::EmptyChunks(n) => (Bytes::new(), (0..(*n % 3) + 1).map(|_| Bytes::new()).collect()),
        BodyForm::Data { spec, sizes } => {
            let b = Bytes::from(spec.expand());
            let c = cut(&b, sizes);
            (b, c)
        }
        BodyForm::Broken { spec, sizes, after, kind } => {
            let b = Bytes::from(spec.expand());
            let mut c = cut(&b, sizes);
            c.retain(|x| !x.is_empty());
            if c.is_empty() {
                c.push(Bytes::from_static(b"x"));
            }
            let after = (*after as usize) % (c.len() + 1);
            headers.push((crate::driver::BREAK_PSEUDO_HEADER.into(), format!("{after}:{kind}").into_bytes()));
            broken = true;
            (b, c)
        }
    };
    if r.announce_len && !chunks.is_empty() {
        headers.push(("Content-Length".into(), body.len().to_string().into_bytes()));
    }
    if r.http10 {
        headers.push((crate::driver::VERSION_PSEUDO_HEADER.into(), b"1.0".to_vec()));
    }
    headers.extend(crate::driver::extra_header_set(r.extra));
    if endpoint.is_some() {
        let c = id_form_class(r.cid);
        if c == Expect::Refuse {
            reasons.push("bad-client-id");
        }
        expect = worst(expect, c);
        if has_id {
            let c = id_form_class(r.pid);
            if c == Expect::Refuse {
                reasons.push("bad-path-id");
            }
            expect = worst(expect, c);
        }
        if is_write {
            let c = match r.ct {
                CtForm::Right => Expect::Serve,
                CtForm::RightWithParams | CtForm::OtherCase => Expect::Either,
                _ => {
                    reasons.push("bad-content-type");
                    Expect::Refuse
                }
            };
            expect = worst(expect, c);
            if broken {
                // a request the HTTP layer itself reports as malformed half way through
                reasons.push("broken-transfer");
                expect = Expect::Refuse;
            } else if body.is_empty() {
                reasons.push("empty-body");
                expect = Expect::Refuse;
            } else if body.len() > LIMIT {
                reasons.push("oversized");
                expect = Expect::Refuse;
            }
        }
    }
    Built { req: HttpReq { method: method.to_string(), path, headers, chunks, stalls: vec![] }, expect, endpoint, body, reasons }
}

fn idform_path() -> impl Strategy<Value = IdForm> {
    prop_oneof![
        10 => Just(IdForm::Canonical),
        1 => Just(IdForm::Upper),
        1 => Just(IdForm::Simple),
        1 => Just(IdForm::Braced),
        1 => Just(IdForm::Urn),
        1 => Just(IdForm::WrongLength),
        1 => Just(IdForm::NonHex),
        1 => Just(IdForm::Empty),
        1 => Just(IdForm::PercentHyphen),
        1 => Just(IdForm::ExtraSegment),
        2 => (0u8..24).prop_map(IdForm::PercentOdd),
        1 => Just(IdForm::Long),
    ]
}

fn idform_header() -> impl Strategy<Value = IdForm> {
    prop_oneof![
        10 => Just(IdForm::Canonical),
        1 => Just(IdForm::Upper),
        1 => Just(IdForm::Simple),
        1 => Just(IdForm::Braced),
        1 => Just(IdForm::Urn),
        1 => Just(IdForm::WrongLength),
        1 => Just(IdForm::NonHex),
        1 => Just(IdForm::Empty),
        1 => Just(IdForm::Absent),
        1 => Just(IdForm::NonAscii),
        1 => Just(IdForm::Duplicate),
        1 => (0u8..9).prop_map(IdForm::LongUtf8),
        1 => Just(IdForm::DuplicateBadFirst),
        2 => (0u8..18).prop_map(IdForm::Elsewhere),
    ]
}

fn ctform() -> impl Strategy<Value = CtForm> {
    prop_oneof![
        10 => Just(CtForm::Right),
        1 => Just(CtForm::RightWithParams),
        1 => Just(CtForm::OtherCase),
        1 => Just(CtForm::Wrong),
        1 => Just(CtForm::Swapped),
        1 => Just(CtForm::Absent),
        1 => Just(CtForm::NonUtf8),
    ]
}

pub fn sizes() -> impl Strategy<Value = Vec<u32>> {
    prop_oneof![
        3 => Just(vec![]),
        2 => Just(vec![1]),
        2 => proptest::collection::vec(prop_oneof![3 => 0u32..8, 2 => 0u32..600, 1 => Just(0u32)], 1..5),
        1 => Just(vec![0, 4096, 0]),
    ]
}

fn bodyform() -> impl Strategy<Value = BodyForm> {
    prop_oneof![
        12 => (case::bytes_spec(1500), sizes()).prop_map(|(spec, sizes)| BodyForm::Data { spec, sizes }),
        2 => (case::bytes_spec(1500), sizes(), 0u8..5, 0u8..5).prop_map(|(spec, sizes, after, kind)| BodyForm::Broken { spec, sizes, after, kind }),
        2 => Just(BodyForm::None),
        1 => (0u8..3).prop_map(BodyForm::EmptyChunks),
    ]
}

fn any_idref(n: u8) -> impl Strategy<Value = IdRef> {
    prop_oneof![
        4 => (0..n).prop_map(IdRef::Latest),
        1 => Just(IdRef::Nil),
        2 => (0..n, 1u8..5).prop_map(|(c, b)| IdRef::Ancestor(c, b)),
        1 => (0..n).prop_map(IdRef::Base),
        1 => (0u32..8).prop_map(IdRef::Fresh),
    ]
}

pub fn rawreq(n: u8) -> impl Strategy<Value = RawReq> {
    let route = prop_oneof![
        6 => Just(Route::AddVersion),
        4 => Just(Route::GetChild),
        5 => Just(Route::AddSnapshot),
        3 => Just(Route::GetSnapshot),
        1 => Just(Route::Index),
        2 => (0u8..10).prop_map(Route::NearMiss),
        1 => (0u8..13).prop_map(Route::TrailingSlash),
    ];
    (route, 0u8..100, 0..n, idform_header(), any_idref(n), idform_path(), ctform(), bodyform(), (any::<bool>(), prop::bool::weighted(0.15), prop_oneof![2 => Just(0u8), 1 => 1u8..crate::driver::N_EXTRA_HEADER_SETS], prop_oneof![6 => Just(0u8), 1 => 1u8..40])).prop_map(|(route, m, client, cid, idref, pid, ct, body, (announce_len, http10, extra, spell))| {
        // the right method most of the time
        let method = if m < 72 {
            match route {
                Route::AddVersion | Route::AddSnapshot => 1,
                _ => 0,
            }
        } else {
            m % 7
        };
        // an own-latest parent most of the time for writes by construction of any_idref
        RawReq { route, method, client, cid, idref, pid, ct, body, announce_len, http10, extra, spell }
    })
}

#[derive(Clone, Debug, Serialize, Deserialize, PartialEq, Eq, Hash)]
pub struct RCase {
    pub backend: Backend,
    pub prefix: Case,
    pub reqs: Vec<RawReq>,
}

fn rcase(max_prefix: usize, max_reqs: usize) -> BoxedStrategy<RCase> {
    let mut p = GenParams::default();
    p.max_ops = max_prefix;
    p.max_clients = 2;
    p.w = [55, 2, 25, 2, 3, 0];
    p.av_latest_pct = 85;
    p.max_len = 40;
    (prop_oneof![3 => Just(Backend::Mem), 2 => Just(Backend::Sqlite)], case::case(&p))
        .prop_flat_map(move |(backend, prefix)| {
            let n = prefix.nclients;
            (Just(backend), Just(prefix), proptest::collection::vec(rawreq(n), 1..=max_reqs))
        })
        .prop_map(|(backend, prefix, reqs)| RCase { backend, prefix, reqs })
        .boxed()
}

fn cache_ok(r: &HttpResp) -> bool {
    let all = r.header_all("Cache-Control");
    !all.is_empty() && all.iter().any(|v| String::from_utf8_lossy(v).to_ascii_lowercase().split(',').any(|t| t.trim() == "no-store"))
}

fn c20_check(what: &str, req: &HttpReq, r: &HttpResp, st: &mut Stats) -> CheckResult {
    if r.crashed.is_some() {
        // a crash produces no response at all; that is C15's business
        return Ok(());
    }
    st.check();
    if !cache_ok(r) {
        return v(format!(
            "{what}: {} {} answered {} without a Cache-Control header forbidding storage (Cache-Control: {:?}{})",
            req.method,
            req.path,
            r.status,
            r.header_all("Cache-Control").iter().map(|v| String::from_utf8_lossy(v).into_owned()).collect::<Vec<_>>(),
            if r.service_error { "; the response was produced outside the middleware" } else { "" }
        ));
    }
    let route = req.path.split('/').take(4).collect::<Vec<_>>().join("/");
    st.label(&format!("c20:{} {} -> {}", req.method, route, r.status));
    if !(req.path == "/" && req.method == "GET" && r.status == 200) {
        st.nontrivial(&("c20", req.method.clone(), route, r.status));
    }
    Ok(())
}

#[derive(Clone, Copy, PartialEq, Eq)]
enum Mode {
    C15,
    C20,
    /// only: whatever is not answered with a success, and every read, leaves the state untouched
    C18,
}

/// Sub-run of the C18 check: the request grammar (refusals of every kind, reads, conflicts)
/// against servers holding state, with the full dump compared around every request.
pub fn c18_raw_subrun(rep: &mut Report, tier: Tier, seed: u64) {
    let r = engine::replay_dir::<RCase, _>("C18", "raw", |c, st| check_raw(c, Mode::C18, st));
    rep.absorb("replay-tier-raw", r);
    if rep.failed() {
        return;
    }
    let (mp, mr) = (tier.pick(14, 30), tier.pick(14, 40));
    let r = engine::explore("C18", "raw", seed, tier.pick(4000, 40_000), || rcase(mp, mr), |c, st| check_raw(c, Mode::C18, st));
    rep.absorb("request-grammar-refusals-and-reads", r);
}

pub fn c18_raw_replay(case_json: &Value, st: &mut Stats) -> CheckResult {
    check_raw(&serde_json::from_value(case_json.clone()).map_err(|e| Fail::Inconclusive(format!("bad replay file: {e}")))?, Mode::C18, st)
}

/// Entry for the libFuzzer target.
pub fn fuzz_check_raw(rc: &RCase, c20: bool, st: &mut Stats) -> CheckResult {
    check_raw(rc, if c20 { Mode::C20 } else { Mode::C15 }, st)
}

/// Run the prefix history through HTTP, then the raw requests; apply the C15 or the C20 oracle.
fn check_raw(rc: &RCase, mode: Mode, st: &mut Stats) -> CheckResult {
    let mut h = Hist::new(&rc.prefix, rc.backend, Via::Http, Oracles::default())?;
    h.drv.http_log = Some(vec![]);
    let mut quiet = Stats::default();
    quiet.frozen = true;
    for (idx, op) in rc.prefix.ops.iter().enumerate() {
        h.step(idx, op, &mut quiet)?;
    }
    if mode == Mode::C20 {
        let log = h.drv.http_log.replace(vec![]).unwrap_or_default();
        for (rq, rs) in &log {
            c20_check("history request", rq, rs, st)?;
        }
    }
    h.drv.http_log = None;
    let holders = h.model.clients.values().filter(|m| !m.chain.is_empty()).count();
    for (i, r) in rc.reqs.iter().enumerate() {
        let client = h.clients[r.client as usize % h.clients.len()];
        let other = h.clients[(r.client as usize + 1) % h.clients.len()];
        let id = h.resolve(&r.idref);
        h.know(id);
        let b = build(r, client, other, id);
        let mc = h.model.client(client);
        // the status the canonical form of this request must get
        let pred_status: Option<u16> = b.endpoint.map(|ep| match ep {
            Route::AddVersion => match mc.predict_add_version(id) {
                AvPred::Accept => 200,
                AvPred::Conflict(_) => 409,
            },
            Route::GetChild => match mc.predict_get_child(id) {
                GcPred::Found(_) => 200,
                GcPred::Gone => 410,
                _ => 404,
            },
            Route::AddSnapshot => match mc.predict_add_snapshot(id) {
                SnapPred::NoSuchClient => 404,
                _ => 200,
            },
            _ => {
                if mc.snap.is_some() {
                    200
                } else {
                    404
                }
            }
        });
        let before = if mode == Mode::C15 || mode == Mode::C18 { Some(h.dump()?) } else { None };
        let meta_before = if b.endpoint == Some(Route::AddSnapshot) { Some(h.meta(client)?) } else { None };
        let resp = h.drv.http_call(b.req.clone());
        if mode == Mode::C20 {
            c20_check(&format!("request {i} ({:?})", b.reasons), &b.req, &resp, st)?;
        }
        let what = format!("request {i}: {} {} (client id form {:?}, path id form {:?}, content type {:?}, body {} bytes in {} chunks; {:?})", b.req.method, b.req.path, r.cid, r.pid, r.ct, b.body.len(), b.req.chunks.len(), b.reasons);
        if mode == Mode::C15 {
            st.check();
            if let Some(m) = &resp.crashed {
                return v(format!("{what}: the handler crashed: {m}"));
            }
            if resp.status >= 500 {
                return v(format!("{what}: answered {} {}", resp.status, String::from_utf8_lossy(&resp.body)));
            }
        }
        let is4xx = (400..500).contains(&resp.status);
        let unchanged = |h: &Hist| -> Result<Option<String>, Fail> {
            match &before {
                Some(b) => Ok(diff_dumps(b, &h.dump()?)),
                None => Ok(None),
            }
        };
        if mode == Mode::C18 {
            st.check();
            let success = (200..300).contains(&resp.status);
            let read = matches!(b.req.method.as_str(), "GET" | "HEAD" | "OPTIONS");
            if !success || read {
                if let Some(d) = unchanged(&h)? {
                    return v(format!("{what}: answered {} ({}), but stored state changed: {d}", resp.status, if success { "a read" } else { "not a success" }));
                }
                st.label(&format!("c18:raw:{}:{}", if read { "read" } else { "write-not-served" }, resp.status));
                if holders >= 1 {
                    st.nontrivial(&("c18-raw", r.route, r.method % 7, resp.status, b.reasons.clone(), holders.min(2)));
                }
            }
        }
        // has the request been served as its canonical form?  then the model has to follow
        let served = b.endpoint.is_some() && Some(resp.status) == pred_status && matches!(b.expect, Expect::Serve | Expect::Either);
        match b.expect {
            Expect::Refuse => {
                if mode == Mode::C15 {
                    if !is4xx {
                        return v(format!("{what}: must be refused with a 4xx, got {}", resp.status));
                    }
                    if let Some(d) = unchanged(&h)? {
                        return v(format!("{what}: refused with {} but stored state changed: {d}", resp.status));
                    }
                    st.label(&format!("c15:refused:{}", b.reasons.join("+")));
                    if b.reasons.len() == 1 && (b.reasons[0] != "unknown-route" && b.reasons[0] != "wrong-method") {
                        st.nontrivial(&("c15", r.route, r.cid, r.pid, r.ct, matches!(r.body, BodyForm::Data { .. }), holders.min(2)));
                    }
                }
            }
            Expect::Tolerant => {}
            Expect::Index => {
                if mode == Mode::C15 && resp.status != 200 {
                    return v(format!("{what}: GET / answered {}", resp.status));
                }
            }
            Expect::Serve | Expect::Either => {
                if mode == Mode::C15 {
                    if b.expect == Expect::Serve && Some(resp.status) != pred_status {
                        return v(format!("{what}: a well-formed request must be served with {pred_status:?}, got {}", resp.status));
                    }
                    if !served {
                        if !is4xx {
                            return v(format!("{what}: neither refused with a 4xx nor served like its canonical form ({pred_status:?}): got {}", resp.status));
                        }
                        if let Some(d) = unchanged(&h)? {
                            return v(format!("{what}: refused with {} but stored state changed: {d}", resp.status));
                        }
                    }
                    st.label(&format!("c15:{}:{}", if b.expect == Expect::Serve { "well-formed" } else { "non-canonical-form" }, if served { "served" } else { "refused" }));
                }
                if served && resp.status == 200 {
                    // keep the model in step
                    match b.endpoint {
                        Some(Route::AddVersion) => {
                            match crate::driver::decode(crate::driver::Endpoint::AddVersion, &resp) {
                                Outcome::Accepted { id: nid, .. } => {
                                    h.know(nid);
                                    h.model.client_mut(client).apply_accept(nid, id, Arc::new(b.body.to_vec()));
                                }
                                o => {
                                    if mode == Mode::C15 {
                                        return v(format!("{what}: 200 without a usable version id: {}", o.short()));
                                    }
                                }
                            }
                        }
                        Some(Route::AddSnapshot) => {
                            let after = h.meta(client)?;
                            let mb = meta_before.clone().unwrap();
                            if after != mb && after.snap.as_ref().map(|s| s.version == id && s.since == 0).unwrap_or(false) {
                                h.model.client_mut(client).apply_snapshot(id, Arc::new(b.body.to_vec()));
                            }
                        }
                        _ => {}
                    }
                }
            }
        }
    }
    st.sample(|| serde_json::json!({"backend": format!("{:?}", rc.backend), "prefix_ops": rc.prefix.ops.len(), "requests": rc.reqs}));
    Ok(())
}

// ---------------------------------------------------------------------------------------------
// size limit (C15 "bodies up to and including the limit are accepted", shared with C06)

#[derive(Clone, Debug, Serialize, Deserialize, PartialEq, Eq, Hash)]
pub struct LimitCase {
    pub backend: Backend,
    pub snapshot: bool,
    /// body length = LIMIT + delta
    pub delta: i32,
    /// chunk sizes (cyclic); empty = one chunk
    pub sizes: Vec<u32>,
    pub class: u8,
}

pub fn check_limit(lc: &LimitCase, c20: bool, st: &mut Stats) -> CheckResult {
    let cfg = case::Cfg::default();
    let mut drv = Driver::new(lc.backend, Via::Http, &cfg).map_err(|e| Fail::Violation(format!("opening storage: {e:#}")))?;
    let c = case::client_uuid(15, 0);
    // one small version first so that the client exists and snapshots have a target
    let first = match drv.add_version(c, Uuid::nil(), b"x") {
        Outcome::Accepted { id, .. } => id,
        o => return v(format!("setting up: {}", o.short())),
    };
    let len = (LIMIT as i64 + lc.delta as i64) as usize;
    let body = Bytes::from(BytesSpec { len: len as u32, class: lc.class, seed: 7 }.expand());
    let chunks = cut(&body, &lc.sizes);
    let nchunks = chunks.len();
    let before = drv.dump(&[c], &[first]).map_err(|e| Fail::Violation(format!("dump: {e:#}")))?;
    let mut req = if lc.snapshot { crate::driver::req_add_snapshot(c, first, chunks) } else { crate::driver::req_add_version(c, first, chunks) };
    if lc.class % 2 == 0 || !lc.sizes.is_empty() && lc.sizes.len() % 2 == 0 {
        // an unchunked upload declares its length up front
        req.headers.push(("Content-Length".into(), len.to_string().into_bytes()));
    }
    let resp = drv.http_call(req.clone());
    let what = format!("{} with a body of limit{:+} bytes in {nchunks} chunks on {:?}", if lc.snapshot { "AddSnapshot" } else { "AddVersion" }, lc.delta, lc.backend);
    st.check();
    if c20 {
        return c20_check(&what, &req, &resp, st);
    }
    if let Some(m) = &resp.crashed {
        return v(format!("{what}: the handler crashed: {m}"));
    }
    if resp.status >= 500 {
        return v(format!("{what}: answered {}", resp.status));
    }
    if lc.delta > 0 {
        if !(400..500).contains(&resp.status) {
            return v(format!("{what}: must be refused with a 4xx, got {}", resp.status));
        }
        let after = drv.dump(&[c], &[first]).map_err(|e| Fail::Violation(format!("dump: {e:#}")))?;
        if let Some(d) = diff_dumps(&before, &after) {
            return v(format!("{what}: refused with {} but stored state changed: {d}", resp.status));
        }
    } else {
        if resp.status != 200 {
            return v(format!("{what}: bodies up to and including the limit must be accepted, got {}", resp.status));
        }
        // and the bytes come back unchanged (the round trip is C06's, paid for here)
        let back = if lc.snapshot { drv.get_snapshot(c) } else { drv.get_child(c, first) };
        let ok = match &back {
            Outcome::Snapshot { id, data } => *id == first && data.len() == body.len() && data[..] == body[..],
            Outcome::Found { parent, data, .. } => *parent == first && data.len() == body.len() && data[..] == body[..],
            _ => false,
        };
        if !ok {
            return v(format!("{what}: accepted, but reading it back gives {}", back.short()));
        }
    }
    st.label(&format!("limit{:+}:{}", lc.delta, resp.status));
    st.nontrivial(lc);
    st.sample(|| serde_json::json!({"limit_case": lc, "status": resp.status}));
    Ok(())
}

/// The size limit seen through the real executable over TCP (its main() wraps more middleware
/// around the service and owns the HTTP server settings).
pub fn check_limit_binary(lc: &LimitCase, st: &mut Stats) -> CheckResult {
    use crate::sock::{exchange, Encoding, SockError};
    let Some(bin) = crate::props::binary::server_bin() else { return Err(Fail::Inconclusive("the server executable has not been built".into())) };
    let dir = TempDir::new("c15b");
    let mut proc = None;
    for _ in 0..4 {
        let port = crate::props::binary::free_port("127.0.0.1").ok_or_else(|| Fail::Inconclusive("no loopback port".into()))?;
        let launch = crate::props::binary::Launch { args: vec!["--data-dir".into(), dir.path().to_string_lossy().into_owned(), "--listen".into(), format!("127.0.0.1:{port}")], env: vec![], connect: vec![format!("127.0.0.1:{port}").parse().unwrap()], cwd: None, dir_arg: None, listen: vec![] };
        if let Ok(p) = crate::props::binary::spawn(&bin, &launch) {
            proc = Some(p);
            break;
        }
    }
    let Some(proc) = proc else { return Err(Fail::Inconclusive("cannot start the server executable".into())) };
    let addr = proc.addrs[0];
    let to = std::time::Duration::from_secs(240);
    let c = case::client_uuid(15, 1);
    let first = match exchange(addr, &crate::driver::req_add_version(c, Uuid::nil(), vec![Bytes::from_static(b"x")]), Encoding::ContentLength, &[], to) {
        Ok(r) => match crate::driver::decode(crate::driver::Endpoint::AddVersion, &r) {
            Outcome::Accepted { id, .. } => id,
            o => return v(format!("set-up through the real executable: {}", o.short())),
        },
        Err(e) => return Err(Fail::Inconclusive(format!("socket: {e:?}"))),
    };
    let len = (LIMIT as i64 + lc.delta as i64) as usize;
    let body = Bytes::from(BytesSpec { len: len as u32, class: lc.class, seed: 9 }.expand());
    let req = if lc.snapshot { crate::driver::req_add_snapshot(c, first, vec![body.clone()]) } else { crate::driver::req_add_version(c, first, vec![body.clone()]) };
    let what = format!("{} with a body of limit{:+} bytes over TCP to the real executable", if lc.snapshot { "AddSnapshot" } else { "AddVersion" }, lc.delta);
    st.check();
    let enc = if lc.sizes.is_empty() { Encoding::ContentLength } else { Encoding::Chunked };
    let resp = match exchange(addr, &req, enc, &[1 << 20], to) {
        Ok(r) => r,
        Err(SockError::NoResponse(m)) | Err(SockError::Io(m)) => {
            // an early refusal can reset the connection while the body is still being written
            if lc.delta > 0 {
                st.label("c15:binary-limit:connection-ended-before-a-status-line");
                return Ok(());
            }
            return Err(Fail::Inconclusive(format!("{what}: no response: {m}")));
        }
    };
    if resp.status >= 500 {
        return v(format!("{what}: answered {}", resp.status));
    }
    if lc.delta > 0 {
        if !(400..500).contains(&resp.status) {
            return v(format!("{what}: must be refused with a 4xx, got {}", resp.status));
        }
    } else {
        if resp.status != 200 {
            return v(format!("{what}: bodies up to and including the limit must be accepted, got {}", resp.status));
        }
        let back = if lc.snapshot { crate::driver::req_get_snapshot(c) } else { crate::driver::req_get_child(c, first) };
        match exchange(addr, &back, Encoding::ContentLength, &[], to) {
            Ok(r) if r.status == 200 && r.body.len() == body.len() && r.body[..] == body[..] => {}
            Ok(r) => return v(format!("{what}: accepted, but reading it back gives status {} and {} bytes", r.status, r.body.len())),
            Err(e) => return Err(Fail::Inconclusive(format!("{what}: reading back: {e:?}"))),
        }
    }
    if lc.delta > 0 && enc == Encoding::Chunked {
        // the same oversized chunked body once more, this time also declaring a small
        // Content-Length: whichever framing the server goes by, more than the limit arrives
        let mut req2 = req.clone();
        req2.headers.push((crate::driver::ALSO_CL_PSEUDO_HEADER.into(), b"4".to_vec()));
        st.check();
        match exchange(addr, &req2, Encoding::Chunked, &[1 << 20], to) {
            Ok(r2) => {
                if r2.status >= 500 || (200..300).contains(&r2.status) {
                    return v(format!("{what}, sent chunked with an additional Content-Length: 4: answered {}", r2.status));
                }
                st.label(&format!("binary-limit:conflicting-framing:{}", r2.status));
            }
            Err(_) => st.label("binary-limit:conflicting-framing:connection-ended-before-a-status-line"),
        }
        // and nothing of it was stored
        let back = if lc.snapshot { crate::driver::req_get_snapshot(c) } else { crate::driver::req_get_child(c, first) };
        match exchange(addr, &back, Encoding::ContentLength, &[], to) {
            Ok(r) if r.status == 404 => {}
            Ok(r) => return v(format!("{what}, sent chunked with an additional Content-Length: 4: afterwards the read answers {} (expected 404: nothing stored)", r.status)),
            Err(e) => return v(format!("{what}: afterwards the server no longer answers: {e:?}")),
        }
    }
    st.label(&format!("binary-limit{:+}:{}", lc.delta, resp.status));
    st.nontrivial(&("binary-limit", lc.snapshot, lc.delta, lc.sizes.is_empty()));
    Ok(())
}

/// A request head that *declares* a body far above the limit (or an ill-formed length) and then
/// sends no body byte at all: whatever the server makes of it, it must not die, must not answer
/// 5xx, and must keep serving the state it had.
#[derive(Clone, Debug, Serialize, Deserialize, PartialEq, Eq, Hash)]
pub struct DeclCase {
    pub snapshot: bool,
    /// the text of the Content-Length header
    pub declared: String,
}

pub fn check_declared_binary(dc: &DeclCase, st: &mut Stats) -> CheckResult {
    use crate::sock::{exchange, Encoding};
    use std::io::{Read, Write};
    let Some(bin) = crate::props::binary::server_bin() else { return Err(Fail::Inconclusive("the server executable has not been built".into())) };
    let dir = TempDir::new("c15d");
    let mut proc = None;
    for _ in 0..4 {
        let port = crate::props::binary::free_port("127.0.0.1").ok_or_else(|| Fail::Inconclusive("no loopback port".into()))?;
        let launch = crate::props::binary::Launch { args: vec!["--data-dir".into(), dir.path().to_string_lossy().into_owned(), "--listen".into(), format!("127.0.0.1:{port}")], env: vec![], connect: vec![format!("127.0.0.1:{port}").parse().unwrap()], cwd: None, dir_arg: None, listen: vec![] };
        if let Ok(p) = crate::props::binary::spawn(&bin, &launch) {
            proc = Some(p);
            break;
        }
    }
    let Some(mut proc) = proc else { return Err(Fail::Inconclusive("cannot start the server executable".into())) };
    let addr = proc.addrs[0];
    let to = std::time::Duration::from_secs(240);
    let c = case::client_uuid(15, 3);
    let first = match exchange(addr, &crate::driver::req_add_version(c, Uuid::nil(), vec![Bytes::from_static(b"x")]), Encoding::ContentLength, &[], to) {
        Ok(r) => match crate::driver::decode(crate::driver::Endpoint::AddVersion, &r) {
            Outcome::Accepted { id, .. } => id,
            o => return v(format!("set-up through the real executable: {}", o.short())),
        },
        Err(e) => return Err(Fail::Inconclusive(format!("socket: {e:?}"))),
    };
    let (path, ct) = if dc.snapshot { (format!("/v1/client/add-snapshot/{first}"), "application/vnd.taskchampion.snapshot") } else { (format!("/v1/client/add-version/{first}"), "application/vnd.taskchampion.history-segment") };
    let what = format!("POST {path} declaring Content-Length: {} and sending no body byte, to the real executable", dc.declared);
    st.check();
    let mut s = std::net::TcpStream::connect(addr).map_err(|e| Fail::Inconclusive(format!("connect: {e}")))?;
    let _ = s.set_read_timeout(Some(std::time::Duration::from_millis(1500)));
    let head = format!("POST {path} HTTP/1.1\r\nHost: localhost\r\nX-Client-Id: {c}\r\nContent-Type: {ct}\r\nContent-Length: {}\r\n\r\n", dc.declared);
    let _ = s.write_all(head.as_bytes());
    let _ = s.flush();
    // wait for an (early) answer; a server that waits for the body is within its rights
    let mut buf = vec![];
    let mut tmp = [0u8; 4096];
    loop {
        match s.read(&mut tmp) {
            Ok(0) => break,
            Ok(n) => {
                buf.extend_from_slice(&tmp[..n]);
                if crate::sock::parse_response(&buf, false).is_some() {
                    break;
                }
            }
            Err(_) => break,
        }
    }
    // then give up the upload: end of the sending direction, and read what may still come
    let _ = s.shutdown(std::net::Shutdown::Write);
    if crate::sock::parse_response(&buf, false).is_none() {
        loop {
            match s.read(&mut tmp) {
                Ok(0) => break,
                Ok(n) => buf.extend_from_slice(&tmp[..n]),
                Err(_) => break,
            }
        }
    }
    drop(s);
    let status = crate::sock::parse_response(&buf, false).map(|r| r.status);
    match status {
        Some(sc) if sc >= 500 => return v(format!("{what}: answered {sc}")),
        Some(sc) if !(400..500).contains(&sc) => return v(format!("{what}: answered {sc}; a request without a body cannot be served, and one declaring more than the limit must be refused")),
        Some(sc) => st.label(&format!("declared-length:answered-{sc}")),
        None => st.label("declared-length:connection-ended-without-a-status-line"),
    }
    // the server is still there, and serves the state it had
    std::thread::sleep(std::time::Duration::from_millis(50));
    if !proc.alive() {
        return v(format!("{what}: the server process died"));
    }
    match exchange(addr, &crate::driver::req_get_child(c, first), Encoding::ContentLength, &[], to) {
        Ok(r) if r.status == 404 => {}
        Ok(r) => return v(format!("{what}: afterwards GetChildVersion of the latest version answers {} (expected 404: nothing was added)", r.status)),
        Err(e) => return v(format!("{what}: afterwards the server no longer answers: {e:?}")),
    }
    match exchange(addr, &crate::driver::req_get_snapshot(c), Encoding::ContentLength, &[], to) {
        Ok(r) if r.status == 404 => {}
        Ok(r) => return v(format!("{what}: afterwards GetSnapshot answers {} (expected 404: no snapshot was stored)", r.status)),
        Err(e) => return v(format!("{what}: afterwards the server no longer answers: {e:?}")),
    }
    match exchange(addr, &crate::driver::req_add_version(c, first, vec![Bytes::from_static(b"y")]), Encoding::ContentLength, &[], to) {
        Ok(r) if r.status == 200 => {}
        Ok(r) => return v(format!("{what}: afterwards a valid AddVersion answers {}", r.status)),
        Err(e) => return v(format!("{what}: afterwards the server no longer answers: {e:?}")),
    }
    st.nontrivial(&("declared-length", dc.snapshot, dc.declared.clone()));
    Ok(())
}

/// Refusals must not wear the server out: after a run of refused oversized uploads (multi-chunk,
/// both endpoints), a valid upload of exactly the limit and a small one are still served.
#[derive(Clone, Debug, Serialize, Deserialize, PartialEq, Eq, Hash)]
pub struct RepeatCase {
    pub backend: Backend,
    pub refusals: u8,
}

pub fn check_repeated_refusals(rc: &RepeatCase, st: &mut Stats) -> CheckResult {
    let cfg = case::Cfg::default();
    let mut drv = Driver::new(rc.backend, Via::Http, &cfg).map_err(|e| Fail::Violation(format!("opening storage: {e:#}")))?;
    let c = case::client_uuid(15, 2);
    let mut latest = match drv.add_version(c, Uuid::nil(), b"x") {
        Outcome::Accepted { id, .. } => id,
        o => return v(format!("setting up: {}", o.short())),
    };
    let over = Bytes::from(BytesSpec { len: (LIMIT + 1) as u32, class: 0, seed: 1 }.expand());
    let before = drv.dump(&[c], &[latest]).map_err(|e| Fail::Violation(format!("dump: {e:#}")))?;
    for k in 0..rc.refusals {
        let chunks = cut(&over, &[1 << 20]);
        let req = if k % 2 == 0 { crate::driver::req_add_version(c, latest, chunks) } else { crate::driver::req_add_snapshot(c, latest, chunks) };
        let resp = drv.http_call(req);
        st.check();
        if resp.crashed.is_some() || !(400..500).contains(&resp.status) {
            return v(format!("oversized upload #{k} (limit+1 bytes in 1 MiB chunks) was answered {} ({:?}); it must be refused with a 4xx every time", resp.status, resp.crashed));
        }
    }
    let after = drv.dump(&[c], &[latest]).map_err(|e| Fail::Violation(format!("dump: {e:#}")))?;
    if let Some(d) = diff_dumps(&before, &after) {
        return v(format!("{} refused oversized uploads changed stored state: {d}", rc.refusals));
    }
    // and the server still serves
    let exact = BytesSpec { len: LIMIT as u32, class: 2, seed: 2 }.expand();
    for (what, body) in [("a small upload", b"small".to_vec()), ("an upload of exactly the limit", exact)] {
        st.check();
        match drv.add_version(c, latest, &body) {
            Outcome::Accepted { id, .. } => latest = id,
            o => return v(format!("after {} refused oversized uploads, {what} was answered {}", rc.refusals, o.short())),
        }
    }
    st.nontrivial(rc);
    st.label("c15:repeated-refusals-then-valid");
    Ok(())
}

pub fn limit_cases(tier: Tier) -> Vec<LimitCase> {
    let mut out = vec![];
    let l = LIMIT as u32;
    let splits: Vec<Vec<u32>> = match tier {
        Tier::Quick => vec![vec![], vec![1 << 20]],
        Tier::Thorough => vec![vec![], vec![1 << 20], vec![65_537], vec![l - 1, 1, 1], vec![l, 1], vec![l / 2, 0]],
    };
    for snapshot in [false, true] {
        for backend in [Backend::Mem, Backend::Sqlite] {
            for delta in [-1i32, 0, 1] {
                for (k, sizes) in splits.iter().enumerate() {
                    // quick: the memory backend gets both splittings, SQLite one
                    if tier == Tier::Quick && backend == Backend::Sqlite && k != 1 {
                        continue;
                    }
                    out.push(LimitCase { backend, snapshot, delta, sizes: sizes.clone(), class: if k % 2 == 0 { 2 } else { 5 } });
                }
            }
        }
    }
    // crossing the limit exactly at / just after a chunk edge
    for snapshot in [false, true] {
        out.push(LimitCase { backend: Backend::Mem, snapshot, delta: 1, sizes: vec![l, 1], class: 0 });
        out.push(LimitCase { backend: Backend::Mem, snapshot, delta: 1, sizes: vec![l - 1, 2], class: 1 });
        out.push(LimitCase { backend: Backend::Mem, snapshot, delta: 0, sizes: vec![l - 1, 1], class: 6 });
    }
    out
}

// ---------------------------------------------------------------------------------------------
// C14: twin execution through HTTP and through the library

#[derive(Clone, Debug, Serialize, Deserialize, PartialEq, Eq, Hash)]
pub struct TCase {
    pub backend: Backend,
    pub case: Case,
}

fn one_header<'a>(r: &'a HttpResp, name: &str) -> Result<Option<&'a [u8]>, String> {
    let all = r.header_all(name);
    match all.len() {
        0 => Ok(None),
        1 => Ok(Some(all[0])),
        n => Err(format!("{n} {name} headers")),
    }
}

fn header_id(h: &Hist, own: Uuid, r: &HttpResp, name: &str) -> Result<Option<String>, String> {
    match one_header(r, name)? {
        None => Ok(None),
        Some(val) => {
            let s = std::str::from_utf8(val).map_err(|_| format!("{name} is not text"))?;
            let u = Uuid::parse_str(s).map_err(|_| format!("{name}: {s:?} is not an id"))?;
            if u.hyphenated().to_string() != s {
                return Err(format!("{name}: {s:?} is not in the canonical hyphenated lower-case form"));
            }
            Ok(Some(h.label_id(own, u, false)))
        }
    }
}

fn check_twin(tc: &TCase, st: &mut Stats) -> CheckResult {
    let case = &tc.case;
    let mut hh = Hist::new(case, tc.backend, Via::Http, Oracles::default())?;
    let mut hl = Hist::new(case, tc.backend, Via::Lib, Oracles::default())?;
    hh.drv.http_log = Some(vec![]);
    hh.drv.log_body_limit = usize::MAX;
    // a right media type may carry parameters (RFC 9110 8.3.1); they do not change what the
    // request is, so the outcome must still be the library's
    // likewise every text form of an id that the server's id parser takes names the same id
    hh.drv.id_style = match case.salt % 10 {
        3 => 1,
        5 => 2,
        7 => 3,
        9 => 4,
        _ => 0,
    };
    hh.drv.ct_params = match case.salt % 6 {
        0 => Some("; charset=utf-8".to_string()),
        1 => Some(";v=1".to_string()),
        _ => None,
    };
    let mut quiet = Stats::default();
    quiet.frozen = true;
    for (idx, op) in case.ops.iter().enumerate() {
        // now and then the HTTP side alone first receives a request that the handlers refuse
        // without consulting the library (empty body, wrong media type): being no protocol
        // transaction at all, it must not show in any later outcome
        if let (true, Some(ci)) = ((case.salt as usize + idx) % 5 == 0, op.client()) {
            let c = hh.clients[ci as usize % hh.clients.len()];
            let req = match (case.salt as usize / 5 + idx) % 3 {
                0 => crate::driver::req_add_version(c, Uuid::nil(), vec![]),
                1 => {
                    let mut r = crate::driver::req_add_version(c, Uuid::nil(), vec![Bytes::from_static(b"x")]);
                    r.headers.retain(|(n, _)| !n.eq_ignore_ascii_case("content-type"));
                    r.headers.push(("Content-Type".into(), b"text/plain".to_vec()));
                    r
                }
                _ => crate::driver::req_add_snapshot(c, crate::case::fresh_uuid(77), vec![]),
            };
            let saved = (hh.drv.ct_params.take(), hh.drv.id_style);
            hh.drv.id_style = 0;
            let r = hh.drv.http_call(req);
            hh.drv.ct_params = saved.0;
            hh.drv.id_style = saved.1;
            let _ = hh.drv.http_log.replace(vec![]);
            if !(400..500).contains(&r.status) {
                // not refused: C15's business; the two sides are no longer comparable
                return Ok(());
            }
            st.label("c14:refused-request-interleaved");
        }
        let n0 = hl.steps.len();
        hl.step(idx, op, &mut quiet)?;
        // the label of ids must be computed against the state *after* the step on both sides
        hh.step(idx, op, &mut quiet).map_err(|f| match f {
            Fail::Violation(m) => Fail::Violation(format!("[through HTTP] {m}")),
            o => o,
        })?;
        if hl.steps.len() == n0 {
            continue;
        }
        let sl = hl.steps.last().unwrap().clone();
        let log = hh.drv.http_log.replace(vec![]).unwrap_or_default();
        if log.is_empty() || log.len() > 2 || (log.len() == 2 && !hh.drv.revalidate) {
            return Err(Fail::Inconclusive(format!("expected one exchange for op {idx}, saw {}", log.len())));
        }
        // a revalidated read: the second, conditional exchange is the one that counts
        let (req, resp) = &log[log.len() - 1];
        let own_l = sl.client;
        let own_h = hh.steps.last().unwrap().client;
        let lab_l = |id: &Uuid| hl.label_id(own_l, *id, false);
        let what = format!("op {idx} ({}): library outcome {}; HTTP {} {} answered {}", op.kind(), hl.canon(own_l, &sl.outcome, false), req.method, req.path, resp.status);
        let hdr = |name: &str| header_id(&hh, own_h, resp, name).map_err(|e| Fail::Violation(format!("{what}: {e}")));
        let absent = |name: &str| -> CheckResult {
            if !resp.header_all(name).is_empty() {
                return v(format!("{what}: header {name} must be absent, found {:?}", resp.header_str(name)));
            }
            Ok(())
        };
        let status = |s: u16| -> CheckResult {
            if resp.status != s {
                return v(format!("{what}: expected status {s}"));
            }
            Ok(())
        };
        let ctype = |want: &str| -> CheckResult {
            match one_header(resp, "Content-Type") {
                Ok(Some(val)) if val == want.as_bytes() => Ok(()),
                o => v(format!("{what}: Content-Type must be {want}, found {:?}", o.map(|x| x.map(|b| String::from_utf8_lossy(b).into_owned())))),
            }
        };
        st.check();
        if let Some(m) = &resp.crashed {
            return v(format!("{what}: the handler crashed: {m}"));
        }
        let mc = hl.model.client(own_l);
        let state = hl.state_class(own_l);
        let mut interesting = false;
        match &sl.outcome {
            Outcome::Accepted { id, urgency } => {
                status(200)?;
                if hdr("X-Version-Id")? != Some(lab_l(id)) {
                    return v(format!("{what}: X-Version-Id does not name the new version"));
                }
                absent("X-Parent-Version-Id")?;
                let want = match urgency {
                    crate::model::Urg::None => None,
                    crate::model::Urg::Low => Some("urgency=low"),
                    crate::model::Urg::High => Some("urgency=high"),
                };
                let got = one_header(resp, "X-Snapshot-Request").map_err(|e| Fail::Violation(format!("{what}: {e}")))?.map(|b| String::from_utf8_lossy(b).into_owned());
                if got.as_deref() != want {
                    return v(format!("{what}: X-Snapshot-Request must be {want:?}, found {got:?}"));
                }
                interesting = *urgency == crate::model::Urg::Low || *urgency == crate::model::Urg::None;
            }
            Outcome::Conflict { latest } => {
                status(409)?;
                if hdr("X-Parent-Version-Id")? != Some(lab_l(latest)) {
                    return v(format!("{what}: X-Parent-Version-Id does not name the current latest version"));
                }
                absent("X-Version-Id")?;
                absent("X-Snapshot-Request")?;
                interesting = mc.chain.len() >= 2;
            }
            Outcome::Found { id, parent, data } => {
                status(200)?;
                if hdr("X-Version-Id")? != Some(lab_l(id)) || hdr("X-Parent-Version-Id")? != Some(lab_l(parent)) {
                    return v(format!("{what}: id headers do not name the found version and its parent"));
                }
                ctype(CT_HS)?;
                if resp.body != **data {
                    return v(format!("{what}: body differs from the stored payload ({} vs {} bytes)", resp.body.len(), data.len()));
                }
                absent("X-Snapshot-Request")?;
                interesting = mc.chain.len() >= 3;
            }
            Outcome::NotFound => {
                status(404)?;
                absent("X-Version-Id")?;
                absent("X-Parent-Version-Id")?;
            }
            Outcome::Gone => {
                status(410)?;
                absent("X-Version-Id")?;
                absent("X-Parent-Version-Id")?;
                interesting = true;
            }
            Outcome::NoSuchClient => {
                status(404)?;
                absent("X-Version-Id")?;
                absent("X-Parent-Version-Id")?;
                interesting = true;
            }
            Outcome::SnapshotOk => {
                status(200)?;
                absent("X-Version-Id")?;
                absent("X-Parent-Version-Id")?;
                absent("X-Snapshot-Request")?;
                interesting = sl.replaced == Some(false);
                // both sides must agree on whether the snapshot was kept
                if hh.steps.last().unwrap().replaced != sl.replaced {
                    return v(format!("{what}: through HTTP the snapshot was {}, through the library it was {}", if hh.steps.last().unwrap().replaced == Some(true) { "stored" } else { "not stored" }, if sl.replaced == Some(true) { "stored" } else { "not stored" }));
                }
            }
            Outcome::Snapshot { id, data } => {
                status(200)?;
                if hdr("X-Version-Id")? != Some(lab_l(id)) {
                    return v(format!("{what}: X-Version-Id does not name the snapshot version"));
                }
                ctype(CT_SNAP)?;
                if resp.body != **data {
                    return v(format!("{what}: body differs from the stored snapshot"));
                }
                absent("X-Parent-Version-Id")?;
            }
            Outcome::NoSnapshot => {
                status(404)?;
                absent("X-Version-Id")?;
            }
            Outcome::Refused { .. } | Outcome::Error { .. } => {
                return v(format!("{what}: the library twin failed"));
            }
        }
        st.label(&format!("c14:{}:{}", op.kind(), sl.outcome.class()));
        if interesting {
            st.nontrivial(&("c14", op.kind(), sl.outcome.class(), state, match &sl.outcome {
                Outcome::Accepted { urgency, .. } => format!("{urgency:?}"),
                _ => String::new(),
            }));
        }
    }
    st.sample(|| serde_json::json!({"backend": format!("{:?}", tc.backend), "case": case}));
    Ok(())
}

fn tcase(p: &GenParams) -> BoxedStrategy<TCase> {
    (prop_oneof![3 => Just(Backend::Mem), 2 => Just(Backend::Sqlite)], case::case(p)).prop_map(|(backend, case)| TCase { backend, case }).boxed()
}

// ---------------------------------------------------------------------------------------------
// C16: allow-list

#[derive(Clone, Copy, Debug, Serialize, Deserialize, PartialEq, Eq, Hash)]
pub enum AllowKind {
    Absent,
    Empty,
    One,
    Many,
}

#[derive(Clone, Debug, Serialize, Deserialize, PartialEq, Eq, Hash)]
pub struct ACase {
    pub backend: Backend,
    pub allow: AllowKind,
    /// history run before the list is introduced (4 clients)
    pub prefix: Case,
    /// history run with the list in force
    pub ops: Vec<Op>,
    /// extra raw requests by unlisted or malformed clients
    pub reqs: Vec<RawReq>,
}

fn acase(max_prefix: usize, max_ops: usize) -> BoxedStrategy<ACase> {
    let mut p = GenParams::default();
    p.max_ops = max_prefix;
    p.min_ops = 3;
    p.max_clients = 4;
    p.w = [55, 5, 25, 5, 2, 0];
    p.av_latest_pct = 85;
    p.nonnil_base_pct = 60;
    let mut p2 = p.clone();
    p2.w = [40, 20, 20, 15, 3, 2];
    p2.foreign_pct = 15;
    (
        prop_oneof![3 => Just(Backend::Mem), 2 => Just(Backend::Sqlite)],
        prop_oneof![1 => Just(AllowKind::Absent), 1 => Just(AllowKind::Empty), 3 => Just(AllowKind::One), 3 => Just(AllowKind::Many)],
        case::case(&p).prop_map(|mut c| {
            c.nclients = 4;
            c
        }),
        proptest::collection::vec(case::op(4, &p2), 1..=max_ops),
        proptest::collection::vec(rawreq(4), 0..8),
    )
        .prop_map(|(backend, allow, prefix, ops, reqs)| ACase { backend, allow, prefix, ops, reqs })
        .boxed()
}

fn check_allow(ac: &ACase, st: &mut Stats) -> CheckResult {
    let shared = Arc::new(Mutex::new(wrap::Shared::default()));
    let (base, dir) = match ac.backend {
        Backend::Mem => (mem_factory(), None),
        Backend::Sqlite => {
            let d = TempDir::new("c16");
            (sqlite_factory(d.path().to_path_buf()), Some(d))
        }
    };
    let factory = wrap::instrumented_factory(base, shared.clone());
    let drv = Driver::with_factory(ac.backend, Via::Http, &ac.prefix.cfg, None, factory, dir).map_err(|e| Fail::Violation(format!("opening storage: {e:#}")))?;
    let mut ha = Hist::with_driver(&ac.prefix, drv, Oracles::default());
    // the twin: same history, never any list
    let mut hb = Hist::new(&ac.prefix, ac.backend, Via::Http, Oracles::default())?;
    let mut quiet = Stats::default();
    quiet.frozen = true;
    for (idx, op) in ac.prefix.ops.iter().enumerate() {
        ha.step(idx, op, &mut quiet)?;
        hb.step(idx, op, &mut quiet)?;
    }
    // introduce the list: same storage, new web server
    let listed: Option<HashSet<Uuid>> = match ac.allow {
        AllowKind::Absent => None,
        AllowKind::Empty => Some(HashSet::new()),
        AllowKind::One => Some([ha.clients[0]].into_iter().collect()),
        AllowKind::Many => Some([ha.clients[0], ha.clients[1], case::fresh_uuid(991), case::fresh_uuid(992), case::client_uuid(1, 9)].into_iter().collect()),
    };
    let cfg = ac.prefix.cfg.clone();
    ha.drv.reconfigure(&cfg, listed.clone());
    let is_listed = |c: Uuid| listed.as_ref().map(|l| l.contains(&c)).unwrap_or(true);
    let _ = wrap::take_log(&shared);

    let base_idx = ac.prefix.ops.len();
    for (k, op) in ac.ops.iter().enumerate() {
        let idx = base_idx + k;
        let Some(ci) = op.client() else {
            ha.step(idx, op, &mut quiet)?;
            hb.step(idx, op, &mut quiet)?;
            continue;
        };
        let c = ha.clients[ci as usize % ha.clients.len()];
        if matches!(op, Op::AgeSnapshot { .. }) {
            ha.step(idx, op, &mut quiet)?;
            hb.step(idx, op, &mut quiet)?;
            let _ = wrap::take_log(&shared);
            continue;
        }
        if is_listed(c) {
            // served exactly as if no list existed
            let (na, nb) = (ha.steps.len(), hb.steps.len());
            ha.step(idx, op, &mut quiet)?;
            hb.step(idx, op, &mut quiet)?;
            if ha.steps.len() > na && hb.steps.len() > nb {
                let (sa, sb) = (ha.steps.last().unwrap(), hb.steps.last().unwrap());
                let (la, lb) = (ha.canon(sa.client, &sa.outcome, false), hb.canon(sb.client, &sb.outcome, false));
                if la != lb {
                    return v(format!("op {idx} ({op:?}) by a listed client (list: {:?}): answered {la}, but {lb} on a server without a list", ac.allow));
                }
                st.check();
                st.label(&format!("c16:listed:{}", op.kind()));
                if listed.is_some() {
                    st.nontrivial(&("c16-listed", ac.allow, op.kind(), sa.outcome.class()));
                }
            }
            let _ = wrap::take_log(&shared);
        } else {
            // an unlisted client, otherwise well-formed: exactly 403, storage untouched and unread
            let (id, req) = match op {
                Op::AddVersion { parent, data, .. } => {
                    let id = ha.resolve(parent);
                    (id, crate::driver::req_add_version(c, id, vec![Bytes::from(data.expand())]))
                }
                Op::GetChild { parent, .. } => {
                    let id = ha.resolve(parent);
                    (id, crate::driver::req_get_child(c, id))
                }
                Op::AddSnapshot { version, data, .. } => {
                    let id = ha.resolve(version);
                    (id, crate::driver::req_add_snapshot(c, id, vec![Bytes::from(data.expand())]))
                }
                _ => (Uuid::nil(), crate::driver::req_get_snapshot(c)),
            };
            ha.know(id);
            let before = ha.dump()?;
            let _ = wrap::take_log(&shared);
            let resp = ha.drv.http_call(req.clone());
            let log = wrap::take_log(&shared);
            let after = ha.dump()?;
            st.check();
            let owns = !ha.model.client(c).chain.is_empty();
            let what = format!("op {idx}: {} {} by an unlisted client{} (list: {:?})", req.method, req.path, if owns { " that owns data from before the list" } else { "" }, ac.allow);
            if let Some(m) = &resp.crashed {
                return v(format!("{what}: the handler crashed: {m}"));
            }
            if resp.status != 403 {
                return v(format!("{what}: must be refused with 403, got {}", resp.status));
            }
            if !log.is_empty() {
                return v(format!("{what}: refused, but the storage was accessed: {:?}", log.iter().map(|e| e.call).collect::<Vec<_>>()));
            }
            if let Some(d) = diff_dumps(&before, &after) {
                return v(format!("{what}: refused, but stored state changed: {d}"));
            }
            st.label(&format!("c16:unlisted:{}:{}", op.kind(), if owns { "owns-data" } else { "no-data" }));
            if owns {
                st.nontrivial(&("c16-unlisted", ac.allow, op.kind(), ha.state_class(c)));
            }
        }
    }

    // raw requests: unlisted or malformed ids, possibly malformed in other ways too
    for (i, r) in ac.reqs.iter().enumerate() {
        let c = ha.clients[r.client as usize % ha.clients.len()];
        let other = ha.clients[(r.client as usize + 1) % ha.clients.len()];
        let id = ha.resolve(&r.idref);
        ha.know(id);
        let b = build(r, c, other, id);
        if b.endpoint.is_none() {
            continue;
        }
        // only the cases this property speaks about: the request names an unlisted client
        // (in any accepted text form) or a malformed id while a list is in force
        let names_unlisted = listed.is_some() && !is_listed(c) && id_form_class(r.cid) != Expect::Refuse && r.cid != IdForm::Duplicate;
        let malformed_id = listed.is_some() && id_form_class(r.cid) == Expect::Refuse;
        if !names_unlisted && !malformed_id {
            // a listed client (or no list at all), in whatever text form of its id: served exactly
            // as a server without a list serves the very same request
            if r.cid == IdForm::Duplicate {
                continue;
            }
            // the twin issued its own version ids: resolve the id argument against its history
            let idb = hb.resolve(&r.idref);
            hb.know(idb);
            let bb = build(r, c, other, idb);
            let ra = ha.drv.http_call(b.req.clone());
            let rb = hb.drv.http_call(bb.req.clone());
            st.check();
            if ra.crashed.is_some() || rb.crashed.is_some() {
                return v(format!("request {i}: {} {} (client id form {:?}): the handler crashed", b.req.method, b.req.path, r.cid));
            }
            if ra.status != rb.status {
                return v(format!(
                    "request {i}: {} {} by a listed client (client id form {:?}, {:?}; list {:?}) was answered {}, but {} by a server without a list",
                    b.req.method, b.req.path, r.cid, b.reasons, ac.allow, ra.status, rb.status
                ));
            }
            st.label(&format!("c16:raw:listed:{:?}:{}", r.cid, ra.status));
            if listed.is_some() && r.cid != IdForm::Canonical {
                st.nontrivial(&("c16-raw-listed", ac.allow, r.route, r.cid, ra.status));
            }
            continue;
        }
        let before = ha.dump()?;
        let _ = wrap::take_log(&shared);
        let resp = ha.drv.http_call(b.req.clone());
        let log = wrap::take_log(&shared);
        let after = ha.dump()?;
        st.check();
        let what = format!("request {i}: {} {} (client id form {:?}, {:?}) with list {:?}", b.req.method, b.req.path, r.cid, b.reasons, ac.allow);
        if let Some(m) = &resp.crashed {
            return v(format!("{what}: the handler crashed: {m}"));
        }
        if !(400..500).contains(&resp.status) {
            return v(format!("{what}: must be refused with a 4xx, got {}", resp.status));
        }
        if names_unlisted && b.expect == Expect::Serve && resp.status != 403 {
            return v(format!("{what}: an otherwise well-formed request of an unlisted client must get 403, got {}", resp.status));
        }
        if !log.is_empty() {
            return v(format!("{what}: refused with {}, but the storage was accessed: {:?}", resp.status, log.iter().map(|e| e.call).collect::<Vec<_>>()));
        }
        if let Some(d) = diff_dumps(&before, &after) {
            return v(format!("{what}: refused, but stored state changed: {d}"));
        }
        st.label(&format!("c16:raw:{}:{}", if names_unlisted { "unlisted" } else { "malformed-id" }, resp.status));
        st.nontrivial(&("c16-raw", ac.allow, r.route, r.cid, b.reasons.clone()));
    }
    // a request that carries X-Client-Id twice, a listed and an unlisted id in either order:
    // whichever policy the server follows, it must not act for (or reveal data of) the unlisted one
    if let Some(l) = &listed {
        let listed_ids: Vec<Uuid> = ha.clients.iter().copied().filter(|c| l.contains(c)).collect();
        let unlisted_ids: Vec<Uuid> = ha.clients.iter().copied().filter(|c| !l.contains(c)).collect();
        if let (Some(li), Some(un)) = (listed_ids.first().copied(), unlisted_ids.iter().copied().find(|u| !ha.model.client(*u).chain.is_empty()).or(unlisted_ids.first().copied())) {
            let mu = ha.model.client(un);
            for order in 0..2 {
                for ep in 0..4 {
                    let first = if order == 0 { li } else { un };
                    let second = if order == 0 { un } else { li };
                    let mut req = match ep {
                        0 => crate::driver::req_add_version(first, mu.latest(), vec![Bytes::from_static(b"dup")]),
                        1 => crate::driver::req_get_child(first, mu.base()),
                        2 => crate::driver::req_add_snapshot(first, mu.latest(), vec![Bytes::from_static(b"dupsnap")]),
                        _ => crate::driver::req_get_snapshot(first),
                    };
                    req.headers.insert(1, ("X-Client-Id".into(), second.to_string().into_bytes()));
                    let others: Vec<Uuid> = vec![un];
                    let ids = ha.ids.clone();
                    let before = ha.drv.api_dump(&others, &ids).map_err(|e| Fail::Violation(format!("dump: {e:#}")))?;
                    let resp = ha.drv.http_call(req.clone());
                    let after = ha.drv.api_dump(&others, &ids).map_err(|e| Fail::Violation(format!("dump: {e:#}")))?;
                    st.check();
                    let what = format!("{} {} with two X-Client-Id headers ({} first, {} second; list {:?})", req.method, req.path, if order == 0 { "listed" } else { "unlisted" }, if order == 0 { "unlisted" } else { "listed" }, ac.allow);
                    if resp.crashed.is_some() || resp.status >= 500 {
                        return v(format!("{what}: answered {} {:?}", resp.status, resp.crashed));
                    }
                    if before != after {
                        return v(format!("{what}: the stored state of the unlisted client changed"));
                    }
                    if resp.status == 200 && (ep == 1 || ep == 3) {
                        // a read that is served must be the listed client's own answer
                        let mut solo = req.clone();
                        solo.headers.retain(|(n, val)| !(n.eq_ignore_ascii_case("x-client-id") && val == un.to_string().as_bytes()));
                        let want = ha.drv.http_call(solo);
                        if want.status != resp.status || want.header_str("X-Version-Id") != resp.header_str("X-Version-Id") || want.body != resp.body {
                            return v(format!("{what}: answered 200 with something other than the listed client's own answer (version {:?}; the listed client alone gets {} {:?})", resp.header_str("X-Version-Id"), want.status, want.header_str("X-Version-Id")));
                        }
                    }
                    st.label(&format!("c16:two-client-id-headers:{}", resp.status));
                    st.nontrivial(&("c16-dup", ac.allow, order, ep, resp.status));
                }
            }
        }
    }
    st.sample(|| serde_json::json!({"backend": format!("{:?}", ac.backend), "allow": format!("{:?}", ac.allow), "prefix_ops": ac.prefix.ops.len(), "ops": ac.ops, "raw": ac.reqs.len()}));
    Ok(())
}

// ---------------------------------------------------------------------------------------------

pub fn run(id: &str, tier: Tier, seed: u64) -> Report {
    match id {
        "C14" => {
            let mut rep = Report::new(
                "C14",
                tier,
                seed,
                "exploration",
                "generated histories executed simultaneously through the HTTP handlers and through the library on twin storages; every HTTP response is compared with the image of the library outcome under the table of the statement: status, presence and absence of X-Version-Id / X-Parent-Version-Id / X-Snapshot-Request (urgency=low|high exactly when urgency is not none), Content-Type, body; ids through chain positions; now and then the HTTP side alone first receives a request its handlers refuse on their own (empty body, wrong media type), which must not show in any later outcome. Non-trivial: urgency low/none, conflict or gone after real history, found child after >=3 versions, unknown client, declined snapshot; distinct by (endpoint, outcome class, state class, urgency).",
            );
            rep.assume("the library twin performs the documented create-on-AddVersion for unknown clients");
            rep.assume("a third of the histories send the right media type with a parameter (; charset=utf-8, ;v=1): parameters do not change the media type, so the outcome must still be the library's (C15 neither requires nor forbids refusing such requests; C14 compares with the library)");
            rep.assume("four histories in ten write ids (path and X-Client-Id) in another text form the id parser takes - upper case, simple, braced, urn; they name the same id, so the outcome must be the library's");
            let r = engine::replay_dir::<TCase, _>("C14", "twin", check_twin);
            rep.absorb("replay-tier", r);
            if rep.failed() {
                return rep;
            }
            let mut p = GenParams::default();
            p.max_ops = tier.pick(40, 120);
            p.w = [40, 22, 18, 12, 3, 5];
            p.av_latest_pct = 65;
            p.big_permille = 12;
            let r = engine::explore("C14", "twin", seed, tier.pick(10_000, 100_000), || tcase(&p), check_twin);
            rep.absorb("twin-histories", r);
            rep
        }
        "C15" | "C20" => {
            let mode = if id == "C15" { Mode::C15 } else { Mode::C20 };
            let idn: &'static str = if id == "C15" { "C15" } else { "C20" };
            let rule = if id == "C15" {
                "grammar-generated requests (route incl. near-miss/unknown x 7 methods x client-id form x path-id form x content-type form x body form incl. none/empty/multi-chunk and transfers that break after k good chunks (payload error of five kinds reported by the HTTP layer) x HTTP/1.1 or 1.0) against in-process servers (memory and SQLite) already holding a generated state; oracle: never a 5xx or a crash; malformed by the statement's list => 4xx and the full state dump unchanged; well-formed => served with the status the model predicts; forms the id parser accepts but that are not canonical => either of the two. Plus bodies of limit-1, limit, limit+1 bytes (single and multi-chunk, crossing the limit at and after a chunk edge) on both write endpoints; a run of refused oversized uploads followed by valid ones; against the real executable: limit-sized bodies, and request heads declaring a Content-Length of limit+1 .. 2^64 and ill-formed lengths without sending a body byte (process must survive, no 2xx/5xx, state still served). Non-trivial: reaches a handler and is refused for exactly one reason, or body within 1 byte of the limit; distinct by grammar tuple."
            } else {
                "every response of the HTTP-level explorations (history requests with all outcomes, the C15 request grammar incl. unknown routes/methods, refusals, limit-sized and oversized bodies, broken transfers, HTTP/1.0 requests, allow-list refusals) must carry Cache-Control with no-store. Non-trivial: any response other than GET / 200; distinct by (method, route, status)."
            };
            let mut rep = Report::new(idn, tier, seed, "exploration", rule);
            rep.assume("only syntactically valid HTTP messages are generated; requests are delivered in process to the service built by WebServer::config (which includes the default-headers middleware)");
            let r = engine::replay_dir::<RCase, _>(idn, "raw", |c, st| check_raw(c, mode, st));
            rep.absorb("replay-tier", r);
            if rep.failed() {
                return rep;
            }
            let (mp, mr) = (tier.pick(14, 30), tier.pick(14, 40));
            let r = engine::explore(idn, "raw", seed, tier.pick(12_000, 100_000), || rcase(mp, mr), |c, st| check_raw(c, mode, st));
            rep.absorb("request-grammar", r);
            if rep.failed() {
                return rep;
            }
            if mode == Mode::C20 {
                // allow-list refusals too
                let r = engine::explore("C20", "allow", seed, tier.pick(600, 10_000), || acase(10, 10), check_allow_c20);
                rep.absorb("allow-list-responses", r);
                if rep.failed() {
                    return rep;
                }
            }
            if mode == Mode::C20 {
                let mut r = engine::enumerate("C20", "fault", fault_cases20(), check_fault_c20);
                r.exhaustive = false;
                rep.absorb("responses-to-failing-storage", r);
                if rep.failed() {
                    return rep;
                }
                // reads of large payloads (a handler may treat them differently: streaming, its own
                // cache headers): versions and snapshots of a megabyte and more, both backends
                let r = engine::enumerate_n("C20", "large", 4, vec![(Backend::Mem, 1u32 << 20), (Backend::Sqlite, 1 << 20), (Backend::Mem, (1 << 20) + 1), (Backend::Sqlite, 5_000_000)], check_large_c20);
                rep.absorb("reads-of-large-payloads", r);
                if rep.failed() {
                    return rep;
                }
                let mut cases = vec![];
                for endpoint in 0..5u8 {
                    for attempts in [30u32, 70, 200] {
                        cases.push(BusyCase20 { endpoint, attempts });
                    }
                }
                let mut r = engine::enumerate_n("C20", "busy", 8, cases, check_busy_c20);
                r.exhaustive = false;
                rep.absorb("responses-while-the-database-is-locked", r);
                if rep.failed() {
                    return rep;
                }
                // the same grammar over real sockets: an actix HttpServer and the real executable
                // (whose main() puts an error-handler and a logger middleware in front)
                let r = engine::explore("C20", "socket", seed, tier.pick(160, 6000), || scase20(12), check_sock_c20);
                rep.absorb("over-tcp-httpserver-and-executable", r);
                if rep.failed() {
                    return rep;
                }
            }
            let mut cases = limit_cases(tier);
            if mode == Mode::C20 && tier == Tier::Quick {
                // the header does not depend on the splitting: one case per endpoint, backend and side of the limit
                cases.retain(|c| c.sizes.is_empty() || c.backend == Backend::Sqlite);
                cases.retain(|c| c.delta != -1);
            }
            let mut r = engine::enumerate_n(idn, "limit", 6, cases, |c, st| check_limit(c, mode == Mode::C20, st));
            r.exhaustive = false;
            rep.absorb("size-limit", r);
            if mode == Mode::C15 && !rep.failed() {
                let cases = vec![RepeatCase { backend: Backend::Mem, refusals: tier.pick(6, 12) }, RepeatCase { backend: Backend::Sqlite, refusals: tier.pick(5, 9) }];
                let mut r = engine::enumerate_n("C15", "repeat", 2, cases, check_repeated_refusals);
                r.exhaustive = false;
                rep.absorb("repeated-refusals-then-valid-uploads", r);
            }
            if mode == Mode::C15 && !rep.failed() && crate::props::binary::server_bin().is_some() {
                let mut cases = vec![];
                for snapshot in [false, true] {
                    for (delta, sizes) in [(0i32, vec![]), (1, vec![]), (0, vec![1u32 << 20]), (1, vec![1u32 << 20]), (-1, vec![])] {
                        if tier == Tier::Quick && delta == -1 {
                            continue;
                        }
                        cases.push(LimitCase { backend: Backend::Sqlite, snapshot, delta, sizes, class: 2 });
                    }
                }
                let mut r = engine::enumerate_n("C15", "limit-binary", 6, cases, check_limit_binary);
                r.exhaustive = false;
                rep.absorb("size-limit-over-tcp-real-executable", r);
                if !rep.failed() {
                    // declared lengths nobody can mean: above the limit by one, beyond 32 and 63 bits,
                    // beyond 64 bits, and ill-formed
                    let mut cases = vec![];
                    for (i, d) in ["104857601", "4294967296", "1099511627776", "1125899906842624", "9223372036854775807", "9223372036854775808", "18446744073709551615", "18446744073709551616", "99999999999999999999999999", "-1", "+5", "1e3"].iter().enumerate() {
                        for snapshot in [false, true] {
                            if tier == Tier::Quick && (i % 2 == 0) == snapshot && i != 3 {
                                continue;
                            }
                            cases.push(DeclCase { snapshot, declared: d.to_string() });
                        }
                    }
                    let mut r = engine::enumerate_n("C15", "declared-binary", 8, cases, check_declared_binary);
                    r.exhaustive = false;
                    rep.absorb("declared-length-without-body-real-executable", r);
                }
            }
            rep
        }
        _ => {
            let mut rep = Report::new(
                "C16",
                tier,
                seed,
                "exploration",
                "generated: allow-list kind (absent, empty, one, many ids) x a history run before the list exists (4 clients, so unlisted clients own data) x a history with the list in force x raw requests with unlisted / malformed ids that may be malformed in other ways too; storage behind a counting wrapper. Oracle: unlisted and otherwise well-formed => exactly 403, zero storage calls, full dump unchanged; unlisted/malformed id plus another defect => some 4xx, zero storage calls; listed clients (and every client when no list) answered exactly like a twin server without a list. Non-trivial: an unlisted request against existing data of that client, or a listed client's op under a real list; distinct by (list kind, endpoint, id form / outcome).",
            );
            rep.assume("'without reading' is observed as: no Storage::txn call between request and response");
            let r = engine::replay_dir::<ACase, _>("C16", "allow", check_allow);
            rep.absorb("replay-tier", r);
            if rep.failed() {
                return rep;
            }
            let (a, b) = (tier.pick(14, 30), tier.pick(20, 50));
            let r = engine::explore("C16", "allow", seed, tier.pick(9000, 80_000), || acase(a, b), check_allow);
            rep.absorb("allow-list", r);
            rep
        }
    }
}

/// C20 over real sockets: the same request grammar, delivered over TCP to (a) an actix HttpServer
/// around the same WebServer and (b) the real executable, with and without an allow-list.
#[derive(Clone, Debug, Serialize, Deserialize, PartialEq, Eq, Hash)]
pub struct SCase20 {
    pub binary: bool,
    pub allow_first_only: bool,
    pub prefix: Case,
    pub reqs: Vec<RawReq>,
}

fn scase20(max_reqs: usize) -> BoxedStrategy<SCase20> {
    (any::<bool>(), prop::bool::weighted(0.4), rcase(6, max_reqs)).prop_map(|(binary, allow_first_only, rc)| SCase20 { binary, allow_first_only, prefix: rc.prefix, reqs: rc.reqs }).boxed()
}

fn check_sock_c20(sc: &SCase20, st: &mut Stats) -> CheckResult {
    use crate::sock::{exchange, Encoding, SockError, SockServer};
    let clients: Vec<Uuid> = (0..sc.prefix.nclients).map(|i| case::client_uuid(sc.prefix.salt, i)).collect();
    let allow: Option<HashSet<Uuid>> = if sc.allow_first_only { Some([clients[0]].into_iter().collect()) } else { None };
    let dir = TempDir::new("c20s");
    // keep the server alive for the whole case
    let mut _srv: Option<SockServer> = None;
    let mut _proc: Option<crate::props::binary::Proc> = None;
    let addr = if sc.binary {
        let Some(bin) = crate::props::binary::server_bin() else { return Err(Fail::Inconclusive("the server executable has not been built".into())) };
        let mut args = vec!["--data-dir".to_string(), dir.path().to_string_lossy().into_owned()];
        if let Some(a) = &allow {
            for id in a {
                args.push("-C".into());
                args.push(id.to_string());
            }
        }
        let mut started = None;
        for _ in 0..4 {
            let port = crate::props::binary::free_port("127.0.0.1").ok_or_else(|| Fail::Inconclusive("no loopback port".into()))?;
            let mut a = args.clone();
            a.push("--listen".into());
            a.push(format!("127.0.0.1:{port}"));
            let launch = crate::props::binary::Launch { args: a, env: vec![], connect: vec![format!("127.0.0.1:{port}").parse().unwrap()], cwd: None, dir_arg: None, listen: vec![] };
            if let Ok(p) = crate::props::binary::spawn(&bin, &launch) {
                started = Some(p);
                break;
            }
        }
        let Some(p) = started else { return Err(Fail::Inconclusive("cannot start the server executable".into())) };
        let a = p.addrs[0];
        _proc = Some(p);
        a
    } else {
        let storage = sqlite_factory(dir.path().to_path_buf())().map_err(|e| Fail::Violation(format!("opening storage: {e:#}")))?.served;
        let ws = taskchampion_sync_server::WebServer::new(crate::driver::server_config(&sc.prefix.cfg), allow.clone(), crate::driver::ArcStorage(storage));
        let s = SockServer::start(ws).map_err(|e| Fail::Inconclusive(format!("cannot start a socket server: {e:#}")))?;
        let a = s.addr;
        _srv = Some(s);
        a
    };
    // a little state first (through the same socket), then the grammar
    let mut latest: Vec<Uuid> = vec![Uuid::nil(); clients.len()];
    let mut all: Vec<(HttpReq, bool)> = vec![];
    for (i, c) in clients.iter().enumerate() {
        all.push((crate::driver::req_add_version(*c, Uuid::nil(), vec![Bytes::from_static(b"seed")]), true));
        let _ = i;
    }
    for r in &sc.reqs {
        let ci = r.client as usize % clients.len();
        let id = match &r.idref {
            IdRef::Latest(k) => latest[*k as usize % latest.len()],
            IdRef::Fresh(l) => case::fresh_uuid(*l),
            _ => Uuid::nil(),
        };
        let b = build(r, clients[ci], clients[(ci + 1) % clients.len()], id);
        all.push((b.req, false));
    }
    for (k, (req, setup)) in all.iter().enumerate() {
        let resp = match exchange(addr, req, if k % 2 == 0 { Encoding::ContentLength } else { Encoding::Chunked }, &[], std::time::Duration::from_secs(120)) {
            Ok(r) => r,
            Err(SockError::NoResponse(m)) | Err(SockError::Io(m)) => {
                st.label("c20:socket:no-response");
                let _ = m;
                continue;
            }
        };
        if *setup && resp.status == 200 {
            if let Some(vv) = resp.header_str("X-Version-Id").and_then(|s| Uuid::parse_str(&s).ok()) {
                latest[k] = vv;
            }
        }
        c20_check(if sc.binary { "over TCP to the real executable" } else { "over TCP to an actix HttpServer" }, req, &resp, st)?;
    }
    // server errors are outcomes too: break the storage under the running server (drop the tables
    // through a second connection) and ask every endpoint once more
    {
        let con = rusqlite::Connection::open(dir.path().join("taskchampion-sync-server.sqlite3")).map_err(|e| Fail::Inconclusive(format!("second connection: {e}")))?;
        let _ = con.busy_timeout(std::time::Duration::from_secs(10));
        let _ = con.execute_batch("DROP TABLE IF EXISTS versions; DROP TABLE IF EXISTS clients;");
    }
    let c = clients[0];
    let broken = [
        crate::driver::req_add_version(c, latest[0], vec![Bytes::from_static(b"after")]),
        crate::driver::req_get_child(c, Uuid::nil()),
        crate::driver::req_add_snapshot(c, latest[0], vec![Bytes::from_static(b"snap")]),
        crate::driver::req_get_snapshot(c),
    ];
    for req in &broken {
        if let Ok(resp) = exchange(addr, req, Encoding::ContentLength, &[], std::time::Duration::from_secs(120)) {
            if resp.status >= 500 {
                st.label("c20:socket:server-error-response");
            }
            c20_check(if sc.binary { "storage broken under the real executable" } else { "storage broken under an actix HttpServer" }, req, &resp, st)?;
        }
    }
    st.label(if sc.binary { "c20:binary-case" } else { "c20:socket-case" });
    Ok(())
}

/// C20 for failing storage, in process: every storage call of every endpoint's request is made to
/// fail in turn; the 500 (or whatever the server answers) must forbid caching as well.
#[derive(Clone, Debug, Serialize, Deserialize, PartialEq, Eq, Hash)]
pub struct FCase20 {
    pub backend: Backend,
    pub endpoint: u8,
    pub at: u32,
    pub after_effect: bool,
}

fn check_fault_c20(fc: &FCase20, st: &mut Stats) -> CheckResult {
    let shared = Arc::new(Mutex::new(wrap::Shared::default()));
    let (base, dir) = match fc.backend {
        Backend::Mem => (mem_factory(), None),
        Backend::Sqlite => {
            let d = TempDir::new("c20f");
            (sqlite_factory(d.path().to_path_buf()), Some(d))
        }
    };
    let cfg = case::Cfg::default();
    let mut drv = Driver::with_factory(fc.backend, Via::Http, &cfg, None, wrap::instrumented_factory(base, shared.clone()), dir).map_err(|e| Fail::Violation(format!("opening storage: {e:#}")))?;
    let c = case::client_uuid(20, 0);
    let v1 = match drv.add_version(c, Uuid::nil(), b"one") {
        Outcome::Accepted { id, .. } => id,
        o => return v(format!("set-up: {}", o.short())),
    };
    let _ = drv.add_snapshot(c, v1, b"snap");
    // an unknown client for the create path
    let c2 = case::client_uuid(20, 1);
    let req = match fc.endpoint % 5 {
        0 => crate::driver::req_add_version(c, v1, vec![Bytes::from_static(b"two")]),
        1 => crate::driver::req_get_child(c, Uuid::nil()),
        2 => crate::driver::req_add_snapshot(c, v1, vec![Bytes::from_static(b"snap2")]),
        3 => crate::driver::req_get_snapshot(c),
        _ => crate::driver::req_add_version(c2, Uuid::nil(), vec![Bytes::from_static(b"first")]),
    };
    // the in-memory backend panics when a written transaction is dropped uncommitted; faults
    // after a write are therefore injected on SQLite only
    wrap::arm(&shared, vec![wrap::Fault { at: fc.at, after_effect: fc.after_effect && fc.backend == Backend::Sqlite }]);
    let resp = drv.http_call(req.clone());
    let injected = wrap::disarm(&shared);
    if resp.crashed.is_some() {
        st.label("c20:fault:handler-crashed(no response)");
        return Ok(());
    }
    c20_check(&format!("storage call {:?} failing", injected.first().map(|i| i.1)), &req, &resp, st)?;
    if resp.status >= 500 {
        st.label("c20:fault:server-error-response");
        st.nontrivial(&("c20-fault", fc.endpoint % 5, injected.first().map(|i| i.1), resp.status));
    }
    Ok(())
}

fn fault_cases20() -> Vec<FCase20> {
    let mut out = vec![];
    for backend in [Backend::Sqlite, Backend::Mem] {
        for endpoint in 0..5u8 {
            for at in 0..10u32 {
                for after_effect in [false, true] {
                    if backend == Backend::Mem && after_effect {
                        continue;
                    }
                    out.push(FCase20 { backend, endpoint, at, after_effect });
                }
            }
        }
    }
    out
}

/// C20 for a database that stays locked beyond the lock-wait budget (another connection holds
/// the write lock): whatever the server answers then must forbid caching as well.  The contention
/// is injected at the VFS (see vfs.rs); one budget is 61 refused attempts.
#[derive(Clone, Debug, Serialize, Deserialize, PartialEq, Eq, Hash)]
pub struct BusyCase20 {
    pub endpoint: u8,
    pub attempts: u32,
}

fn check_busy_c20(bc: &BusyCase20, st: &mut Stats) -> CheckResult {
    let dir = TempDir::new("c20b");
    let dpath = dir.path().to_path_buf();
    let rec = crate::vfs::track(&dpath);
    let r = (|| -> CheckResult {
        let cfg = case::Cfg::default();
        let mut drv = Driver::with_factory(Backend::Sqlite, Via::Http, &cfg, None, sqlite_factory(dpath.clone()), None).map_err(|e| Fail::Violation(format!("opening storage: {e:#}")))?;
        let c = case::client_uuid(20, 0);
        let v1 = match drv.add_version(c, Uuid::nil(), b"one") {
            Outcome::Accepted { id, .. } => id,
            o => return v(format!("set-up: {}", o.short())),
        };
        let _ = drv.add_snapshot(c, v1, b"snap");
        let c2 = case::client_uuid(20, 1);
        let req = match bc.endpoint % 5 {
            0 => crate::driver::req_add_version(c, v1, vec![Bytes::from_static(b"two")]),
            1 => crate::driver::req_get_child(c, Uuid::nil()),
            2 => crate::driver::req_add_snapshot(c, v1, vec![Bytes::from_static(b"snap2")]),
            3 => crate::driver::req_get_snapshot(c),
            _ => crate::driver::req_add_version(c2, Uuid::nil(), vec![Bytes::from_static(b"first")]),
        };
        let holder = rusqlite::Connection::open(dpath.join("taskchampion-sync-server.sqlite3")).map_err(|e| Fail::Inconclusive(format!("lock holder: {e}")))?;
        let _: i64 = holder.query_row("SELECT count(*) FROM sqlite_master", [], |r| r.get(0)).map_err(|e| Fail::Inconclusive(format!("lock holder: {e}")))?;
        rec.set_busy(bc.attempts);
        let resp = drv.http_call(req.clone());
        let hits = rec.clear_busy();
        drop(holder);
        if resp.crashed.is_some() {
            st.label("c20:busy:handler-crashed(no response)");
            return Ok(());
        }
        c20_check(&format!("database locked by another connection ({hits} lock attempts refused)"), &req, &resp, st)?;
        st.label(&format!("c20:busy:{}", resp.status));
        if resp.status >= 500 {
            st.nontrivial(&("c20-busy", bc.endpoint % 5, resp.status));
        }
        Ok(())
    })();
    crate::vfs::untrack();
    r
}

fn check_large_c20(case_: &(Backend, u32), st: &mut Stats) -> CheckResult {
    let (backend, len) = case_;

    let cfg = case::Cfg::default();
    let mut drv = Driver::new(*backend, Via::Http, &cfg).map_err(|e| Fail::Violation(format!("opening storage: {e:#}")))?;
    drv.http_log = Some(vec![]);
    drv.log_body_limit = 16;
    let c = case::client_uuid(20, 2);
    let big = BytesSpec { len: *len, class: 2, seed: 20 }.expand();
    let Outcome::Accepted { id: v1, .. } = drv.add_version(c, Uuid::nil(), &big) else { return v("set-up failed".to_string()) };
    let Outcome::Accepted { id: v2, .. } = drv.add_version(c, v1, b"small") else { return v("set-up failed".to_string()) };
    let _ = drv.add_snapshot(c, v2, &big);
    let _ = drv.add_version(c, v2, b"another");
    let _ = drv.get_child(c, Uuid::nil());
    let _ = drv.get_child(c, v1);
    let _ = drv.get_snapshot(c);
    for (rq, rs) in drv.http_log.take().unwrap_or_default() {
        c20_check(&format!("history with payloads of {len} bytes"), &rq, &rs, st)?;
    }
    Ok(())
}

/// C20 over the allow-list exploration: every response (403s included) must forbid caching.
fn check_allow_c20(ac: &ACase, st: &mut Stats) -> CheckResult {
    let cfg = ac.prefix.cfg.clone();
    let mut h = Hist::new(&ac.prefix, ac.backend, Via::Http, Oracles::default())?;
    let mut quiet = Stats::default();
    quiet.frozen = true;
    for (idx, op) in ac.prefix.ops.iter().enumerate() {
        h.step(idx, op, &mut quiet)?;
    }
    let listed: Option<HashSet<Uuid>> = match ac.allow {
        AllowKind::Absent => None,
        AllowKind::Empty => Some(HashSet::new()),
        AllowKind::One => Some([h.clients[0]].into_iter().collect()),
        AllowKind::Many => Some([h.clients[0], h.clients[1]].into_iter().collect()),
    };
    h.drv.reconfigure(&cfg, listed);
    for op in &ac.ops {
        let Some(ci) = op.client() else { continue };
        let c = h.clients[ci as usize % h.clients.len()];
        let req = match op {
            Op::AddVersion { parent, data, .. } => crate::driver::req_add_version(c, h.resolve(parent), vec![Bytes::from(data.expand())]),
            Op::GetChild { parent, .. } => crate::driver::req_get_child(c, h.resolve(parent)),
            Op::AddSnapshot { version, data, .. } => crate::driver::req_add_snapshot(c, h.resolve(version), vec![Bytes::from(data.expand())]),
            Op::GetSnapshot { .. } => crate::driver::req_get_snapshot(c),
            _ => continue,
        };
        let resp = h.drv.http_call(req.clone());
        c20_check("request under an allow-list", &req, &resp, st)?;
    }
    let _ = client_meta;
    Ok(())
}

pub fn replay(id: &str, kind: &str, case_json: &Value, st: &mut Stats) -> CheckResult {
    let bad = |e: serde_json::Error| Fail::Inconclusive(format!("bad replay file: {e}"));
    match (id, kind) {
        ("C14", "twin") => check_twin(&serde_json::from_value(case_json.clone()).map_err(bad)?, st),
        ("C15", "raw") => check_raw(&serde_json::from_value(case_json.clone()).map_err(bad)?, Mode::C15, st),
        ("C20", "raw") => check_raw(&serde_json::from_value(case_json.clone()).map_err(bad)?, Mode::C20, st),
        ("C15", "repeat") => check_repeated_refusals(&serde_json::from_value(case_json.clone()).map_err(bad)?, st),
        ("C15", "declared-binary") => check_declared_binary(&serde_json::from_value(case_json.clone()).map_err(bad)?, st),
        ("C15", "limit-binary") => check_limit_binary(&serde_json::from_value(case_json.clone()).map_err(bad)?, st),
        ("C15", "limit") => check_limit(&serde_json::from_value(case_json.clone()).map_err(bad)?, false, st),
        ("C20", "limit") => check_limit(&serde_json::from_value(case_json.clone()).map_err(bad)?, true, st),
        ("C20", "allow") => check_allow_c20(&serde_json::from_value(case_json.clone()).map_err(bad)?, st),
        ("C20", "large") => check_large_c20(&serde_json::from_value(case_json.clone()).map_err(bad)?, st),
        ("C20", "busy") => check_busy_c20(&serde_json::from_value(case_json.clone()).map_err(bad)?, st),
        ("C20", "fault") => check_fault_c20(&serde_json::from_value(case_json.clone()).map_err(bad)?, st),
        ("C20", "socket") => check_sock_c20(&serde_json::from_value(case_json.clone()).map_err(bad)?, st),
        ("C16", "allow") => check_allow(&serde_json::from_value(case_json.clone()).map_err(bad)?, st),
        _ => Err(Fail::Inconclusive(format!("unknown replay kind {id}/{kind}"))),
    }
}

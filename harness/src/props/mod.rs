//! One module per family of properties; `run` dispatches a check, `replay` re-executes a saved case.

pub mod binary;
pub mod compat;
pub mod conc;
pub mod crash;
pub mod diff;
pub mod fault;
pub mod http;
pub mod iso;
pub mod payload;
pub mod seq;
pub mod urgency;

use crate::engine::{CheckResult, Fail, Report, Stats, Tier};
use serde_json::Value;

pub const ALL: &[&str] = &["C01", "C02", "C03", "C04", "C05", "C06", "C07", "C08", "C09", "C10", "C11", "C12", "C13", "C14", "C15", "C16", "C17", "C18", "C19", "C20"];

pub fn run(id: &str, tier: Tier, seed: u64) -> Option<Report> {
    match id {
        "C01" | "C02" | "C07" | "C08" | "C10" | "C11" | "C18" => Some(seq::run(id, tier, seed)),
        "C03" => Some(conc::run(tier, seed)),
        "C04" => Some(crash::run(tier, seed)),
        "C05" => Some(fault::run(tier, seed)),
        "C06" => Some(payload::run(tier, seed)),
        "C09" => Some(iso::run(tier, seed)),
        "C12" => Some(urgency::run(tier, seed)),
        "C13" => Some(diff::run(tier, seed)),
        "C14" | "C15" | "C16" | "C20" => Some(http::run(id, tier, seed)),
        "C17" => Some(binary::run(tier, seed)),
        "C19" => Some(compat::run(tier, seed)),
        _ => None,
    }
}

fn replay_case(prop: &str, kind: &str, case: &Value, st: &mut Stats) -> Option<CheckResult> {
    Some(match prop {
        "C01" | "C02" | "C07" | "C08" | "C10" | "C11" | "C18" => seq::replay(prop, kind, case, st),
        "C03" => conc::replay(kind, case, st),
        "C04" => crash::replay(kind, case, st)?,
        "C05" => match fault::replay(kind, case, st) {
            Some(r) => r,
            None => crash::replay(kind, case, st)?,
        },
        "C06" => payload::replay(kind, case, st),
        "C09" => iso::replay(kind, case, st),
        "C12" => urgency::replay(kind, case, st),
        "C13" => diff::replay(kind, case, st),
        "C14" | "C15" | "C16" | "C20" => http::replay(prop, kind, case, st),
        "C17" => binary::replay(kind, case, st),
        "C19" => compat::replay(kind, case, st),
        _ => return None,
    })
}

/// Re-execute one saved case without any generator.  Exit code 1 (and a VIOLATION line) if it
/// still fails, 0 if it passes.
pub fn replay(file: &str) -> i32 {
    let text = match std::fs::read_to_string(file) {
        Ok(t) => t,
        Err(e) => {
            eprintln!("cannot read {file}: {e}");
            return 64;
        }
    };
    let v: Value = match serde_json::from_str(&text) {
        Ok(v) => v,
        Err(e) => {
            eprintln!("cannot parse {file}: {e}");
            return 64;
        }
    };
    let prop = v["property"].as_str().unwrap_or("").to_string();
    let kind = v["kind"].as_str().unwrap_or("").to_string();
    let mut st = Stats::default();
    let r = std::panic::catch_unwind(std::panic::AssertUnwindSafe(|| replay_case(&prop, &kind, &v["case"], &mut st)));
    let r = match r {
        Ok(Some(r)) => r,
        Ok(None) => {
            eprintln!("unknown property in replay file: {prop}");
            return 64;
        }
        Err(_) => Err(Fail::Violation("panic while executing the case".into())),
    };
    match r {
        Ok(()) => {
            println!("replay {file}: property {prop} holds on this case");
            0
        }
        Err(Fail::Violation(m)) => {
            println!("--- {prop} [{kind}]: {m}");
            println!("VIOLATION property={prop} replay={file}");
            1
        }
        Err(Fail::Inconclusive(m)) => {
            println!("INCONCLUSIVE property={prop} {m}");
            2
        }
    }
}

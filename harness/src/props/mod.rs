//! One module per family of properties; `run` dispatches a check, `replay` re-executes a saved case.

pub mod seq;

use crate::engine::{Fail, Report, Stats, Tier};
use serde_json::Value;

pub const ALL: &[&str] = &["C01", "C02", "C07", "C08", "C10", "C11", "C18"];

pub fn run(id: &str, tier: Tier, seed: u64) -> Option<Report> {
    match id {
        "C01" | "C02" | "C07" | "C08" | "C10" | "C11" | "C18" => Some(seq::run(id, tier, seed)),
        _ => None,
    }
}

/// Re-execute one saved case without any generator.  Exit code 1 (and a VIOLATION line) if it
/// still fails, 0 if it passes.
pub fn replay(file: &str) -> i32 {
    let text = match std::fs::read_to_string(file) {
        Ok(t) => t,
        Err(e) => {
            eprintln!("cannot read {file}: {e}");
            return 64;
        }
    };
    let v: Value = match serde_json::from_str(&text) {
        Ok(v) => v,
        Err(e) => {
            eprintln!("cannot parse {file}: {e}");
            return 64;
        }
    };
    let prop = v["property"].as_str().unwrap_or("").to_string();
    let kind = v["kind"].as_str().unwrap_or("").to_string();
    let mut st = Stats::default();
    let r = match prop.as_str() {
        "C01" | "C02" | "C07" | "C08" | "C10" | "C11" | "C18" => seq::replay(&prop, &kind, &v["case"], &mut st),
        _ => {
            eprintln!("unknown property in replay file: {prop}");
            return 64;
        }
    };
    match r {
        Ok(()) => {
            println!("replay {file}: property {prop} holds on this case");
            0
        }
        Err(Fail::Violation(m)) => {
            println!("--- {prop} [{kind}]: {m}");
            println!("VIOLATION property={prop} replay={file}");
            1
        }
        Err(Fail::Inconclusive(m)) => {
            println!("INCONCLUSIVE property={prop} {m}");
            2
        }
    }
}

//! C12 - snapshot urgency for every configuration (DESIGN.md section 3, C12).

use crate::case::{self, Cfg, GenParams};
use crate::driver::{mem_factory, server_config, sqlite_factory, ArcStorage, Backend, TempDir, Via};
use crate::engine::{self, CheckResult, Fail, Report, Stats, Tier};
use crate::hist::{run_history, Oracles};
use crate::model::{allowed_urgency, Urg};
use crate::props::seq::{hcase, HCase};
use proptest::prelude::*;
use serde::{Deserialize, Serialize};
use serde_json::Value;
use std::sync::Arc;
use taskchampion_sync_server_core::{AddVersionResult, Server, Snapshot, SnapshotUrgency, Storage};
use uuid::Uuid;

/// One point of the threshold function: a configuration and the two measures.
#[derive(Clone, Debug, Serialize, Deserialize, PartialEq, Eq, Hash)]
pub struct Point {
    pub snapshot_days: i64,
    pub snapshot_versions: u32,
    /// snapshot age in whole days; None = no snapshot at all
    pub days: Option<i64>,
    pub since: u32,
    pub sqlite: bool,
}

/// Largest age the harness can install: chrono must be able to represent now - days.
pub const MAX_DAYS: i64 = 90_000_000;
/// The in-memory backend increments the counter with every stored version; u32::MAX itself is not
/// a state any history reaches (and would overflow that increment), so the largest count used is
/// MAX-1.
pub const MAX_SINCE: u32 = u32::MAX - 1;

fn urg(u: SnapshotUrgency) -> Urg {
    match u {
        SnapshotUrgency::None => Urg::None,
        SnapshotUrgency::Low => Urg::Low,
        SnapshotUrgency::High => Urg::High,
    }
}

/// Install the point in a real server and observe the urgency of one real AddVersion.
pub fn observe(p: &Point) -> Result<Urg, String> {
    observe_with(p, true)
}

fn observe_with(p: &Point, subsecond: bool) -> Result<Urg, String> {
    let dir;
    let factory = if p.sqlite {
        dir = Some(TempDir::new("c12"));
        sqlite_factory(dir.as_ref().unwrap().path().to_path_buf())
    } else {
        dir = None;
        mem_factory()
    };
    let _keep = &dir;
    let storage: Arc<dyn Storage> = factory().map_err(|e| format!("opening storage: {e:#}"))?.served;
    let c = case::client_uuid(12, 0);
    let v1 = case::fresh_uuid(1);
    let mut stamped: Option<chrono::DateTime<chrono::Utc>> = None;
    (|| -> anyhow::Result<()> {
        let mut t = storage.txn(c)?;
        t.new_client(Uuid::nil())?;
        t.add_version(v1, Uuid::nil(), vec![1, 2, 3])?;
        if let Some(days) = p.days {
            let now = chrono::Utc::now();
            let since_midnight = now.timestamp().rem_euclid(86400);
            let within = [3600, 13 * 3600, 23 * 3600 + 1800, (since_midnight + 30).min(86399)][(p.since % 4) as usize];
            let mut ts = now - chrono::Duration::seconds(days * 86400 + within);
            // where the backend keeps fractions of a second (memory): also 350 ms short of the
            // next whole day, and 2 ms past this one - with the fraction of the stamp's second
            // later, resp. earlier, than that of the moment the version is accepted
            if subsecond && !p.sqlite && days.abs() < MAX_DAYS {
                match p.since % 6 {
                    4 => {
                        ts = now - chrono::Duration::seconds((days + 1) * 86400) + chrono::Duration::milliseconds(350);
                        stamped = Some(ts);
                    }
                    5 => {
                        ts = now - chrono::Duration::seconds(days * 86400) - chrono::Duration::milliseconds(2);
                        stamped = Some(ts);
                    }
                    _ => {}
                }
            }
            t.set_snapshot(Snapshot { version_id: v1, timestamp: ts, versions_since: p.since }, vec![9, 9])?;
        }
        t.commit()
    })()
    .map_err(|e| format!("setting up state through the storage API: {e:#}"))?;
    let cfg = Cfg { snapshot_days: p.snapshot_days, snapshot_versions: p.snapshot_versions };
    let server = Server::new(server_config(&cfg), ArcStorage(storage.clone()));
    let r = std::panic::catch_unwind(std::panic::AssertUnwindSafe(|| server.add_version(c, v1, vec![4, 5, 6])));
    if let (Some(ts), Some(days)) = (stamped, p.days) {
        // a slow machine: the age is no longer the intended one - observe with a stamp well inside the day
        if (chrono::Utc::now() - ts).num_days() != case::observed_age_days(days) {
            return observe_with(p, false);
        }
    }
    match r {
        Err(p) => Err(format!(
            "AddVersion panicked: {}",
            p.downcast_ref::<&str>().map(|s| s.to_string()).or_else(|| p.downcast_ref::<String>().cloned()).unwrap_or_default()
        )),
        Ok(Err(e)) => Err(format!("AddVersion failed: {e:#}")),
        Ok(Ok((AddVersionResult::Ok(_), u))) => Ok(urg(u)),
        Ok(Ok((o, _))) => Err(format!("AddVersion on the latest version was not accepted: {o:?}")),
    }
}

fn describe(p: &Point) -> String {
    format!(
        "targets snapshot_days={} snapshot_versions={}; stored snapshot: {}",
        p.snapshot_days,
        p.snapshot_versions,
        match p.days {
            None => "none".to_string(),
            Some(d) => format!("{d} days old, {} versions since", p.since),
        }
    )
}

fn nontrivial(p: &Point) -> bool {
    let near = |m: i128, t: i128| (m - t).abs() <= 2 || (2 * m - 3 * t).abs() <= 5;
    let big = p.snapshot_versions > u32::MAX / 3 || p.snapshot_days > i64::MAX / 3;
    let small_odd = p.snapshot_versions <= 1 || p.snapshot_versions % 2 == 1 || p.snapshot_days <= 1 || p.snapshot_days % 2 == 1;
    match p.days {
        None => false,
        Some(d) => near(p.since as i128, p.snapshot_versions as i128) || near(d as i128, p.snapshot_days as i128) || big || small_odd,
    }
}

/// Layer 1: the band is the stated function of the two measures, for every configuration.
fn check_point(p: &Point, st: &mut Stats) -> CheckResult {
    let cfg = Cfg { snapshot_days: p.snapshot_days, snapshot_versions: p.snapshot_versions };
    let allowed = allowed_urgency(&cfg, p.days.map(|d| (p.since as u64, case::observed_age_days(d))));
    match observe(p) {
        Err(e) => Err(Fail::Violation(format!("{}: {e}", describe(p)))),
        Ok(u) => {
            st.check();
            st.label(&format!("band:{u:?}"));
            if p.snapshot_versions > u32::MAX / 3 || p.snapshot_days > i64::MAX / 3 {
                st.label("target>MAX/3");
            }
            if !allowed.contains(&u) {
                return Err(Fail::Violation(format!("{}: AddVersion reported urgency {u:?}; the statement allows {allowed:?}", describe(p))));
            }
            if nontrivial(p) {
                st.nontrivial(p);
            }
            st.sample(|| serde_json::json!({"point": p, "urgency": format!("{u:?}")}));
            Ok(())
        }
    }
}

/// Layer 2 (metamorphic): for a fixed configuration the urgency never decreases as a measure grows.
#[derive(Clone, Debug, Serialize, Deserialize, PartialEq, Eq, Hash)]
pub struct Pair {
    pub a: Point,
    pub b: Point,
}

fn check_pair(pr: &Pair, st: &mut Stats) -> CheckResult {
    let ua = observe(&pr.a).map_err(|e| Fail::Violation(format!("{}: {e}", describe(&pr.a))))?;
    let ub = observe(&pr.b).map_err(|e| Fail::Violation(format!("{}: {e}", describe(&pr.b))))?;
    st.check();
    if ua > ub {
        return Err(Fail::Violation(format!(
            "urgency decreased as the measures grew: {} -> {ua:?}, but {} -> {ub:?}",
            describe(&pr.a),
            describe(&pr.b)
        )));
    }
    st.label(&format!("pair:{ua:?}<={ub:?}"));
    if ua != ub || nontrivial(&pr.a) || nontrivial(&pr.b) {
        st.nontrivial(pr);
    }
    Ok(())
}

fn target_u32() -> BoxedStrategy<u32> {
    let m = u32::MAX;
    prop_oneof![
        3 => prop::sample::select(vec![0u32, 1, 2, 3, 4, 5, 7, 8, 9, 15, 16, 17, 99, 100, 101, 255, 256, 257, 65535, 65536, 65537]),
        3 => prop::sample::select(vec![m / 3 - 1, m / 3, m / 3 + 1, m / 3 + 2, m / 2 - 1, m / 2, m / 2 + 1, m / 3 * 2 - 1, m / 3 * 2, m / 3 * 2 + 1, m / 3 * 2 + 2, m - 2, m - 1, m]),
        2 => 0u32..50,
        2 => any::<u32>(),
        1 => (0u32..32, 0u32..3).prop_map(|(k, d)| (1u32 << k).wrapping_add(d).wrapping_sub(1)),
    ]
    .boxed()
}

fn target_i64() -> BoxedStrategy<i64> {
    let m = i64::MAX;
    prop_oneof![
        3 => prop::sample::select(vec![0i64, 1, 2, 3, 4, 5, 7, 13, 14, 15, 29, 30, 31, 365]),
        3 => prop::sample::select(vec![m / 3 - 1, m / 3, m / 3 + 1, m / 3 + 2, m / 2 - 1, m / 2, m / 2 + 1, m / 3 * 2 - 1, m / 3 * 2, m / 3 * 2 + 1, m - 2, m - 1, m]),
        2 => 0i64..50,
        1 => 0i64..=MAX_DAYS * 2,
        1 => 0i64..=i64::MAX,
        1 => (0u32..63, 0i64..3).prop_map(|(k, d)| (1i64 << k).saturating_add(d).saturating_sub(1)),
    ]
    .boxed()
}

fn around(t: i128, max: i128) -> BoxedStrategy<i128> {
    let cands: Vec<i128> = vec![
        0, 1, t - 2, t - 1, t, t + 1, t + 2, (3 * t) / 2 - 2, (3 * t) / 2 - 1, (3 * t) / 2, (3 * t + 1) / 2, (3 * t) / 2 + 1, (3 * t) / 2 + 2, 2 * t, 2 * t + 1, max - 1, max,
    ]
    .into_iter()
    .map(|x| x.clamp(0, max))
    .collect();
    let today = case::today_days() as i128;
    let landmarks: Vec<i128> = case::EPOCH_OFFSETS.iter().map(|o| (today - *o as i128).clamp(0, max)).collect();
    prop_oneof![
        5 => prop::sample::select(cands),
        1 => prop::sample::select(landmarks),
        1 => (0u64..=(max as u64)).prop_map(|x| x as i128),
        1 => (0i128..60).prop_map(move |x| x.clamp(0, max)),
    ]
    .boxed()
}

fn point() -> BoxedStrategy<Point> {
    (target_i64(), target_u32(), 0u32..100)
        .prop_flat_map(|(sd, sv, r)| {
            let days = around(sd as i128, MAX_DAYS as i128);
            let since = around(sv as i128, MAX_SINCE as i128);
            (Just(sd), Just(sv), days, since, Just(r))
        })
        .prop_map(|(sd, sv, d, s, r)| Point {
            snapshot_days: sd,
            snapshot_versions: sv,
            days: if r < 3 { None } else { Some(d as i64) },
            since: s as u32,
            sqlite: r >= 80,
        })
        .boxed()
}

fn pair() -> BoxedStrategy<Pair> {
    (point(), 0u32..3, 1u64..1000, any::<u32>())
        .prop_map(|(mut a, which, delta, big)| {
            if a.days.is_none() {
                a.days = Some(0);
            }
            let mut b = a.clone();
            let delta = if big % 4 == 0 { big as u64 } else { delta };
            if which != 1 {
                b.since = (a.since as u64 + delta).min(MAX_SINCE as u64) as u32;
            }
            if which != 0 {
                b.days = Some((a.days.unwrap() + delta as i64).min(MAX_DAYS));
            }
            Pair { a, b }
        })
        .boxed()
}

/// A deterministic grid of the most dangerous points (part of every run, quick included).
fn grid() -> Vec<Point> {
    let m32 = u32::MAX;
    let m64 = i64::MAX;
    let tv = [0u32, 1, 2, 3, 5, 100, 101, m32 / 3, m32 / 3 + 1, m32 / 2, m32 / 3 * 2 + 1, 3_000_000_000, m32 - 1, m32];
    let td = [0i64, 1, 2, 3, 14, 15, m64 / 3, m64 / 3 + 1, m64 / 2, m64 - 1, m64];
    let mut out = vec![];
    for &sv in &tv {
        for &sd in &td {
            let t = sv as i128;
            for s in [0, t - 1, t, (3 * t) / 2 - 1, (3 * t) / 2, (3 * t + 1) / 2, 2 * t, MAX_SINCE as i128] {
                let d = sd as i128;
                for dd in [0, d - 1, d, (3 * d) / 2, (3 * d + 1) / 2, MAX_DAYS as i128] {
                    out.push(Point {
                        snapshot_days: sd,
                        snapshot_versions: sv,
                        days: Some(dd.clamp(0, MAX_DAYS as i128) as i64),
                        since: s.clamp(0, MAX_SINCE as i128) as u32,
                        sqlite: false,
                    });
                }
            }
            out.push(Point { snapshot_days: sd, snapshot_versions: sv, days: None, since: 0, sqlite: false });
        }
    }
    // snapshots stamped in the future (the clock was stepped back), against every kind of target
    for &sv in &[0u32, 1, 5, m32 / 3 + 1, m32] {
        for &sd in &[0i64, 1, 14, m64 / 3 + 1, m64 - 1, m64] {
            for dd in [-1i64, -2, -3, -400] {
                for sqlite in [false, true] {
                    out.push(Point { snapshot_days: sd, snapshot_versions: sv, days: Some(dd), since: (sv / 2).min(3), sqlite });
                }
            }
        }
    }
    // snapshot times on calendar landmarks (before 1970, the epoch, 10^8 s, 10^9 s), both backends
    let today = case::today_days();
    for o in case::EPOCH_OFFSETS {
        for (sd, sv) in [(14i64, 100u32), (3, 2), (30000, 5)] {
            for sqlite in [false, true] {
                out.push(Point { snapshot_days: sd, snapshot_versions: sv, days: Some(today - o), since: (o.rem_euclid(3)) as u32, sqlite });
            }
        }
    }
    out.sort_by_key(|p| (p.snapshot_versions, p.snapshot_days, p.days, p.since, p.sqlite));
    out.dedup();
    out
}

fn check_hist(hc: &HCase, st: &mut Stats) -> CheckResult {
    let mut o = Oracles::default();
    o.c12 = true;
    run_history(&hc.case, hc.backend, hc.via, o, st)
}

pub fn run(tier: Tier, seed: u64) -> Report {
    let mut rep = Report::new(
        "C12",
        tier,
        seed,
        "exploration",
        "(1) threshold function: generated (snapshot_days, snapshot_versions, age in days, versions since) tuples - targets from {0,1,odd,even,2^k+-1,MAX/3+-1,MAX/2+-1,2MAX/3+-1,MAX-1,MAX} and random, measures around each threshold and at the extremes - each installed in a real server through the storage API and observed through one real AddVersion; oracle: the band stated in the property in 128-bit arithmetic (both low and high accepted at the one integer point per odd target where 1.5x target is not an integer), no panic, no error; plus a fixed grid of dangerous points. (2) metamorphic: growing either measure never lowers the urgency. (3) counters from real histories with small targets and aged snapshots on both backends and through HTTP. Non-trivial: within 2 of a threshold, or a target above MAX/3 of its type, or target 0/1/odd; distinct by tuple.",
    );
    rep.assume("snapshot age is installed by rewriting the snapshot time through StorageTxn::set_snapshot to now - d*86400 s - (1 h | 13 h | 23.5 h | back to just before the last UTC midnight), so num_days() is exactly d wherever in the day the snapshot falls; in memory (which keeps fractions of a second) also 350 ms short of the next whole day and 2 ms past this one");
    rep.assume("ages are bounded by what chrono can represent (90 million days); versions-since by u32::MAX-1");
    let r = engine::replay_dir::<Point, _>("C12", "point", check_point);
    rep.absorb("replay-tier-point", r);
    let r = engine::replay_dir::<Pair, _>("C12", "pair", check_pair);
    rep.absorb("replay-tier-pair", r);
    let r = engine::replay_dir::<HCase, _>("C12", "history", check_hist);
    rep.absorb("replay-tier-history", r);
    if rep.failed() {
        return rep;
    }
    let mut r = engine::enumerate("C12", "point", grid(), check_point);
    r.exhaustive = false; // a fixed grid, not a complete space
    rep.absorb("threshold-grid", r);
    if rep.failed() {
        return rep;
    }
    let r = engine::explore("C12", "point", seed, tier.pick(200_000, 1_500_000), point, check_point);
    rep.absorb("threshold-function", r);
    if rep.failed() {
        return rep;
    }
    let r = engine::explore("C12", "pair", seed, tier.pick(60_000, 500_000), pair, check_pair);
    rep.absorb("monotonicity", r);
    if rep.failed() {
        return rep;
    }
    let mut p = GenParams::default();
    p.max_ops = tier.pick(40, 120);
    p.w = [60, 2, 20, 2, 4, 12];
    p.av_latest_pct = 92;
    p.empty_permille = 30;
    p.max_clients = 2;
    p.small_cfg = true;
    let r = engine::explore("C12", "history", seed, tier.pick(9000, 80_000), || hcase(&p, 25), check_hist);
    rep.absorb("counters-from-histories", r);
    rep
}

pub fn replay(kind: &str, case_json: &Value, st: &mut Stats) -> CheckResult {
    let bad = |e: serde_json::Error| Fail::Inconclusive(format!("bad replay file: {e}"));
    match kind {
        "point" => check_point(&serde_json::from_value(case_json.clone()).map_err(bad)?, st),
        "pair" => check_pair(&serde_json::from_value(case_json.clone()).map_err(bad)?, st),
        "history" => check_hist(&serde_json::from_value(case_json.clone()).map_err(bad)?, st),
        _ => Err(Fail::Inconclusive(format!("unknown replay kind {kind}"))),
    }
}

#[allow(dead_code)]
fn _unused(_: Backend, _: Via) {}

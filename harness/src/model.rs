//! Reference model, written from the property statements (DESIGN.md 2.3).
//!
//! The model is deliberately *told* what the server acknowledged (ids are random) and predicts
//! everything else.  Where a property leaves room the prediction is a set.

use crate::case::Cfg;
use serde::{Deserialize, Serialize};
use std::collections::BTreeMap;
use uuid::Uuid;

#[derive(Clone, Copy, Debug, PartialEq, Eq, PartialOrd, Ord, Serialize, Deserialize, Hash)]
pub enum Urg {
    None,
    Low,
    High,
}

#[derive(Clone, Debug, PartialEq, Eq)]
pub struct MVersion {
    pub id: Uuid,
    pub parent: Uuid,
    pub data: std::sync::Arc<Vec<u8>>,
}

#[derive(Clone, Debug, PartialEq, Eq)]
pub struct MSnap {
    pub version: Uuid,
    pub data: std::sync::Arc<Vec<u8>>,
    /// versions acknowledged since the snapshot was accepted
    pub since: u64,
    /// age in whole days (0 unless aged by the harness)
    pub days: i64,
    /// how many snapshots were accepted before this one (for labels)
    pub generation: u32,
}

#[derive(Clone, Debug, Default, PartialEq, Eq)]
pub struct MClient {
    /// the server has a record for this client (created by its first AddVersion)
    pub exists: bool,
    pub chain: Vec<MVersion>,
    pub snap: Option<MSnap>,
    pub snaps_accepted: u32,
}

#[derive(Clone, Copy, Debug, PartialEq, Eq, Hash, Serialize, Deserialize, PartialOrd, Ord)]
pub enum IdClass {
    Nil,
    Latest,
    /// k-th before latest, k >= 1
    Ancestor(u8),
    /// the non-nil id the chain started from (not a stored version)
    Base,
    /// not related to this client's chain but a version of another client
    Foreign,
    /// unrelated to anything
    Unknown,
}

#[derive(Clone, Debug, PartialEq, Eq)]
pub enum AvPred {
    Accept,
    Conflict(Uuid),
}

#[derive(Clone, Debug, PartialEq, Eq)]
pub enum GcPred {
    NoSuchClient,
    Found(usize),
    NotFound,
    Gone,
}

#[derive(Clone, Copy, Debug, PartialEq, Eq)]
pub enum SnapPred {
    NoSuchClient,
    Replace,
    Decline,
    /// the statement leaves it open (v is the non-nil id the chain started from)
    Either,
}

impl MClient {
    pub fn latest(&self) -> Uuid {
        self.chain.last().map(|v| v.id).unwrap_or(Uuid::nil())
    }
    pub fn base(&self) -> Uuid {
        self.chain.first().map(|v| v.parent).unwrap_or(Uuid::nil())
    }
    pub fn pos(&self, id: Uuid) -> Option<usize> {
        self.chain.iter().position(|v| v.id == id)
    }
    pub fn child_of(&self, p: Uuid) -> Option<usize> {
        self.chain.iter().position(|v| v.parent == p)
    }

    pub fn classify(&self, id: Uuid) -> IdClass {
        if id.is_nil() {
            return IdClass::Nil;
        }
        if let Some(p) = self.pos(id) {
            let back = self.chain.len() - 1 - p;
            return if back == 0 { IdClass::Latest } else { IdClass::Ancestor(back.min(250) as u8) };
        }
        if !self.chain.is_empty() && id == self.base() {
            return IdClass::Base;
        }
        IdClass::Unknown
    }

    pub fn predict_add_version(&self, parent: Uuid) -> AvPred {
        if self.chain.is_empty() || parent == self.latest() {
            AvPred::Accept
        } else {
            AvPred::Conflict(self.latest())
        }
    }

    pub fn predict_get_child(&self, p: Uuid) -> GcPred {
        if !self.exists {
            return GcPred::NoSuchClient;
        }
        if let Some(i) = self.child_of(p) {
            return GcPred::Found(i);
        }
        if self.chain.is_empty() || p == self.latest() {
            GcPred::NotFound
        } else {
            GcPred::Gone
        }
    }

    /// The window rule of C10, straight from the statement.
    pub fn predict_add_snapshot(&self, v: Uuid) -> SnapPred {
        if !self.exists {
            return SnapPred::NoSuchClient;
        }
        if v.is_nil() {
            return SnapPred::Decline;
        }
        if !self.chain.is_empty() && v == self.base() && self.pos(v).is_none() {
            return SnapPred::Either;
        }
        let n = self.chain.len();
        let Some(p) = self.pos(v) else { return SnapPred::Decline };
        // among the five most recent versions
        if n - p > 5 {
            return SnapPred::Decline;
        }
        if let Some(s) = &self.snap {
            if s.version == v {
                return SnapPred::Decline;
            }
            if let Some(sp) = self.pos(s.version) {
                if sp > p {
                    return SnapPred::Decline;
                }
            }
        }
        SnapPred::Replace
    }

    pub fn apply_accept(&mut self, id: Uuid, parent: Uuid, data: std::sync::Arc<Vec<u8>>) {
        self.exists = true;
        self.chain.push(MVersion { id, parent, data });
        if let Some(s) = &mut self.snap {
            s.since += 1;
        }
    }

    pub fn apply_snapshot(&mut self, v: Uuid, data: std::sync::Arc<Vec<u8>>) {
        let generation = self.snaps_accepted;
        self.snaps_accepted += 1;
        self.snap = Some(MSnap { version: v, data, since: 0, days: 0, generation });
    }
}

/// Exact band for one measure: 2 = high, 1 = low, 0 = none; in 128-bit arithmetic.
pub fn band_exact(m: i128, t: i128) -> Urg {
    if 2 * m >= 3 * t {
        Urg::High
    } else if m >= t {
        Urg::Low
    } else {
        Urg::None
    }
}

/// Band with the threshold rounded down (what integer arithmetic "t*3/2" gives without overflow).
pub fn band_floor(m: i128, t: i128) -> Urg {
    if m >= (3 * t).div_euclid(2) {
        Urg::High
    } else if m >= t {
        Urg::Low
    } else {
        Urg::None
    }
}

/// The set of urgencies the statement allows (one or two elements; two only at the single integer
/// point per odd target where "one and a half times" is not an integer).
pub fn allowed_urgency(cfg: &Cfg, snap: Option<(u64, i64)>) -> Vec<Urg> {
    match snap {
        None => vec![Urg::High],
        Some((since, days)) => {
            let v = [
                band_exact(since as i128, cfg.snapshot_versions as i128),
                band_floor(since as i128, cfg.snapshot_versions as i128),
            ];
            let d = [
                band_exact(days as i128, cfg.snapshot_days as i128),
                band_floor(days as i128, cfg.snapshot_days as i128),
            ];
            let mut out = vec![];
            for a in v {
                for b in d {
                    let u = a.max(b);
                    if !out.contains(&u) {
                        out.push(u);
                    }
                }
            }
            out
        }
    }
}

#[derive(Clone, Debug, Default)]
pub struct Model {
    pub clients: BTreeMap<Uuid, MClient>,
}

impl Model {
    pub fn client(&self, c: Uuid) -> MClient {
        self.clients.get(&c).cloned().unwrap_or_default()
    }
    pub fn client_mut(&mut self, c: Uuid) -> &mut MClient {
        self.clients.entry(c).or_default()
    }
    /// Is `id` a version of a client other than `c`?
    pub fn foreign_owner(&self, c: Uuid, id: Uuid) -> bool {
        self.clients.iter().any(|(k, m)| *k != c && (m.pos(id).is_some() || (!m.chain.is_empty() && m.base() == id)))
    }
    pub fn classify(&self, c: Uuid, id: Uuid) -> IdClass {
        let k = self.client(c).classify(id);
        if k == IdClass::Unknown && self.foreign_owner(c, id) {
            IdClass::Foreign
        } else {
            k
        }
    }
}

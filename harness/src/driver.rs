//! Drivers: how operations are executed against the real code (DESIGN.md 2.2), the normalised
//! `Outcome`, and the state dumps (DESIGN.md 2.3).

use crate::case::Cfg;
use crate::model::Urg;
use std::collections::{BTreeMap, HashSet};
use std::path::{Path, PathBuf};
use std::sync::atomic::{AtomicU64, Ordering};
use std::sync::mpsc;
use std::sync::{Arc, Mutex};
use taskchampion_sync_server::WebServer;
use taskchampion_sync_server_core::{
    AddVersionResult, GetVersionResult, InMemoryStorage, Server, ServerConfig, ServerError, Snapshot,
    SnapshotUrgency, Storage, StorageTxn,
};
use taskchampion_sync_server_storage_sqlite::SqliteStorage;
use uuid::Uuid;

// ---------------------------------------------------------------------------------------------
// temp directories

static DIR_SEQ: AtomicU64 = AtomicU64::new(0);

pub fn temp_root() -> PathBuf {
    let base = if Path::new("/dev/shm").is_dir() { PathBuf::from("/dev/shm") } else { std::env::temp_dir() };
    base.join(format!("tcss-verif-{}", std::process::id()))
}

/// A private scratch directory, removed on drop.
pub struct TempDir(pub PathBuf);
impl TempDir {
    pub fn new(tag: &str) -> TempDir {
        let n = DIR_SEQ.fetch_add(1, Ordering::Relaxed);
        let p = temp_root().join(format!("{tag}-{n}"));
        std::fs::create_dir_all(&p).expect("create temp dir");
        TempDir(p)
    }
    pub fn path(&self) -> &Path {
        &self.0
    }
}
impl Drop for TempDir {
    fn drop(&mut self) {
        let _ = std::fs::remove_dir_all(&self.0);
    }
}

pub fn cleanup_temp_root() {
    let _ = std::fs::remove_dir_all(temp_root());
}

// ---------------------------------------------------------------------------------------------
// outcomes

pub type Data = Arc<Vec<u8>>;

#[derive(Clone, Debug, PartialEq, Eq)]
pub enum Outcome {
    Accepted { id: Uuid, urgency: Urg },
    Conflict { latest: Uuid },
    Found { id: Uuid, parent: Uuid, data: Data },
    NotFound,
    Gone,
    NoSuchClient,
    SnapshotOk,
    Snapshot { id: Uuid, data: Data },
    NoSnapshot,
    Refused { status: u16 },
    /// Err from the library, 5xx, panic, or a response that cannot be decoded
    Error { what: String },
}

impl Outcome {
    pub fn short(&self) -> String {
        match self {
            Outcome::Accepted { id, urgency } => format!("Accepted({id},{urgency:?})"),
            Outcome::Conflict { latest } => format!("Conflict(latest={latest})"),
            Outcome::Found { id, parent, data } => format!("Found({id},parent={parent},{}B)", data.len()),
            Outcome::Snapshot { id, data } => format!("Snapshot({id},{}B)", data.len()),
            Outcome::Error { what } => format!("Error({what})"),
            o => format!("{o:?}"),
        }
    }
    pub fn class(&self) -> &'static str {
        match self {
            Outcome::Accepted { .. } => "accepted",
            Outcome::Conflict { .. } => "conflict",
            Outcome::Found { .. } => "found",
            Outcome::NotFound => "not-found",
            Outcome::Gone => "gone",
            Outcome::NoSuchClient => "no-such-client",
            Outcome::SnapshotOk => "snapshot-ok",
            Outcome::Snapshot { .. } => "snapshot",
            Outcome::NoSnapshot => "no-snapshot",
            Outcome::Refused { .. } => "refused",
            Outcome::Error { .. } => "error",
        }
    }
    pub fn is_error(&self) -> bool {
        matches!(self, Outcome::Error { .. })
    }
    /// keep the variant, drop the text (used for "no response" markers)
    pub fn clone_with(&self, _note: String) -> Outcome {
        self.clone()
    }
}

fn urg(u: SnapshotUrgency) -> Urg {
    match u {
        SnapshotUrgency::None => Urg::None,
        SnapshotUrgency::Low => Urg::Low,
        SnapshotUrgency::High => Urg::High,
    }
}

// ---------------------------------------------------------------------------------------------
// storage plumbing

/// Lets the harness keep a handle on the storage it gives to `Server` / `WebServer`.
pub struct ArcStorage(pub Arc<dyn Storage>);
impl Storage for ArcStorage {
    fn txn(&self, client_id: Uuid) -> anyhow::Result<Box<dyn StorageTxn + '_>> {
        self.0.txn(client_id)
    }
}

#[derive(Clone, Copy, Debug, PartialEq, Eq, Hash, serde::Serialize, serde::Deserialize)]
pub enum Backend {
    Mem,
    Sqlite,
}

#[derive(Clone, Copy, Debug, PartialEq, Eq, Hash, serde::Serialize, serde::Deserialize)]
pub enum Via {
    Lib,
    Http,
}

pub fn server_config(cfg: &Cfg) -> ServerConfig {
    ServerConfig { snapshot_days: cfg.snapshot_days, snapshot_versions: cfg.snapshot_versions }
}

/// What a factory builds: the storage handed to the server (possibly wrapped by the harness) and
/// the plain backend underneath it, which the harness uses for its own probes and dumps.
#[derive(Clone)]
pub struct Stores {
    pub served: Arc<dyn Storage>,
    pub probe: Arc<dyn Storage>,
}

impl Stores {
    pub fn plain(s: Arc<dyn Storage>) -> Stores {
        Stores { served: s.clone(), probe: s }
    }
}

/// Builds the storage stack; called at construction and on every reopen.
pub type StorageFactory = Box<dyn Fn() -> anyhow::Result<Stores> + Send>;

pub fn mem_factory() -> StorageFactory {
    // "reopen" keeps the same object: an in-memory store has nothing to reopen
    let st: Arc<dyn Storage> = Arc::new(InMemoryStorage::new());
    Box::new(move || Ok(Stores::plain(st.clone())))
}

pub fn sqlite_factory(dir: PathBuf) -> StorageFactory {
    Box::new(move || Ok(Stores::plain(Arc::new(SqliteStorage::new(&dir)?) as Arc<dyn Storage>)))
}

// ---------------------------------------------------------------------------------------------
// HTTP in process

#[derive(Clone, Debug, PartialEq, Eq)]
pub struct HttpReq {
    pub method: String,
    pub path: String,
    /// header values as bytes (obs-text allowed)
    pub headers: Vec<(String, Vec<u8>)>,
    /// empty = no payload at all
    pub chunks: Vec<bytes::Bytes>,
    /// in process only: seconds of (virtual) time that pass before the i-th chunk arrives
    pub stalls: Vec<u32>,
}

#[derive(Clone, Debug, Default)]
pub struct HttpResp {
    pub status: u16,
    pub headers: Vec<(String, Vec<u8>)>,
    pub body: Vec<u8>,
    /// the service returned Err (answered by the dispatcher, outside all middleware)
    pub service_error: bool,
    /// the handler thread died (panic message)
    pub crashed: Option<String>,
}

impl HttpResp {
    pub fn header_all(&self, name: &str) -> Vec<&[u8]> {
        self.headers
            .iter()
            .filter(|(n, _)| n.eq_ignore_ascii_case(name))
            .map(|(_, v)| v.as_slice())
            .collect()
    }
    pub fn header(&self, name: &str) -> Option<&[u8]> {
        self.header_all(name).into_iter().next()
    }
    pub fn header_str(&self, name: &str) -> Option<String> {
        self.header(name).map(|v| String::from_utf8_lossy(v).into_owned())
    }
}

enum Msg {
    Req(HttpReq, mpsc::Sender<HttpResp>),
    Rebuild(WebServer),
    Stop,
}

/// An actix service built from `WebServer::config`, living on its own thread with its own
/// single-threaded runtime.
pub struct HttpHandle {
    tx: mpsc::Sender<Msg>,
    join: Option<std::thread::JoinHandle<()>>,
    panic_msg: Arc<Mutex<Option<String>>>,
}

/// Not a header: `(":http-version", "1.0")` among a request's headers asks for the request to be
/// made as HTTP/1.0 (in process: the request's version field; over a socket: the request line).
pub const VERSION_PSEUDO_HEADER: &str = ":http-version";
/// Not a header either: `(":break-after", "<k>:<kind>")` makes the body transfer fail after `k`
/// good chunks - in process the payload stream yields an error of that kind (0 incomplete,
/// 1 corrupt encoding, 2 overflow, 3 unknown length, 4 i/o), over a socket the chunked framing
/// turns to garbage at that point.
pub const BREAK_PSEUDO_HEADER: &str = ":break-after";
/// And a third one: `(":step-clock", "<days>")` steps the process's wall clock forward by so many
/// days while the body is in transit - after its first chunk has been delivered (in process only).
pub const STEP_PSEUDO_HEADER: &str = ":step-clock";
/// A fourth (sockets only): `(":also-content-length", "<n>")` sends a Content-Length header of
/// that value *in addition to* `Transfer-Encoding: chunked` - conflicting framing, which HTTP/1.1
/// resolves in favour of the chunked coding (RFC 9112 6.3) or refuses.
pub const ALSO_CL_PSEUDO_HEADER: &str = ":also-content-length";

/// Request headers that have nothing to do with the protocol and must not change any outcome
/// (nor cost a response its Cache-Control): what browsers, proxies and HTTP libraries add.
pub const N_EXTRA_HEADER_SETS: u8 = 22;
pub fn extra_header_set(k: u8) -> Vec<(String, Vec<u8>)> {
    let h = |n: &str, v: &str| (n.to_string(), v.as_bytes().to_vec());
    match k % N_EXTRA_HEADER_SETS {
        1 => vec![h("Accept-Encoding", "identity;q=0")],
        2 => vec![h("Accept-Encoding", "*;q=0")],
        3 => vec![h("Accept-Encoding", "gzip, deflate, br, zstd")],
        4 => vec![h("Accept", "application/json")],
        5 => vec![h("Accept", "text/html;q=0, */*;q=0")],
        6 => vec![h("Range", "bytes=0-3")],
        7 => vec![h("If-None-Match", "*"), h("If-Match", "\"abc\"")],
        8 => vec![h("If-Modified-Since", "Wed, 21 Oct 2015 07:28:00 GMT"), h("If-Unmodified-Since", "Wed, 21 Oct 2015 07:28:00 GMT")],
        9 => vec![h("Origin", "https://example.org"), h("Access-Control-Request-Method", "POST"), h("Access-Control-Request-Headers", "x-client-id")],
        10 => vec![h("X-Forwarded-For", "203.0.113.7, 10.0.0.1"), h("Forwarded", "for=203.0.113.7;proto=https"), h("X-Forwarded-Proto", "https"), h("Via", "1.1 proxy")],
        11 => vec![h("Cookie", "session=abc; theme=dark"), h("Authorization", "Basic Zm9vOmJhcg==")],
        12 => vec![h("Cache-Control", "only-if-cached, max-stale=3600"), h("Pragma", "no-cache")],
        13 => vec![h("Accept-Language", "de-CH, en;q=0.5"), h("Accept-Charset", "utf-16;q=1, *;q=0"), h("User-Agent", "")],
        14 => vec![h("Content-Encoding", "identity"), h("Content-Language", "en")],
        16 => vec![h("X-Forwarded-For", "unknown"), h("Forwarded", "for=unknown")],
        17 => vec![h("X-Forwarded-For", "203.0.113.7:4711"), h("Forwarded", "for=\"203.0.113.7:4711\"")],
        18 => vec![h("X-Forwarded-For", "[2001:db8::17]:4711, 10.0.0.1"), h("Forwarded", "for=\"[2001:db8::17]:4711\";by=_proxy")],
        19 => vec![h("X-Forwarded-For", "_hidden"), h("Forwarded", "for=_hidden, for=_SEVKISEK"), h("X-Real-IP", "not-an-address")],
        20 => vec![h("X-Forwarded-For", ""), h("Forwarded", ""), h("X-Forwarded-Host", "evil.example:0"), h("X-Forwarded-Port", "99999")],
        21 => vec![h("Host", "other.example"), h("X-Request-Id", "0"), h("Traceparent", "00-zz-zz-00")],
        15 => vec![h("X-Client-Id-Extra", "1"), h("X-Version-Id", "00000000-0000-0000-0000-000000000001"), h("X-Parent-Version-Id", "00000000-0000-0000-0000-000000000002"), h("X-Snapshot-Request", "urgency=high")],
        _ => vec![],
    }
}

pub fn break_plan(r: &HttpReq) -> Option<(usize, u8)> {
    let v = r.headers.iter().find(|(n, _)| n == BREAK_PSEUDO_HEADER)?;
    let t = String::from_utf8_lossy(&v.1).into_owned();
    let (a, b) = t.split_once(':')?;
    Some((a.parse().ok()?, b.parse().ok()?))
}

pub fn build_request(r: &HttpReq) -> actix_http::Request {
    use actix_web::http::header::{HeaderName, HeaderValue};
    use actix_web::http::Method;
    let mut t = actix_web::test::TestRequest::default()
        .method(Method::from_bytes(r.method.as_bytes()).expect("valid method"))
        .uri(&r.path);
    for (n, v) in &r.headers {
        if n == VERSION_PSEUDO_HEADER {
            if v == b"1.0" {
                t = t.version(actix_web::http::Version::HTTP_10);
            }
            continue;
        }
        if n == BREAK_PSEUDO_HEADER || n == STEP_PSEUDO_HEADER || n == ALSO_CL_PSEUDO_HEADER {
            continue;
        }
        let name = HeaderName::from_bytes(n.as_bytes()).expect("valid header name");
        let val = HeaderValue::from_bytes(v).expect("valid header value");
        t = t.append_header((name, val));
    }
    let req = t.to_request();
    if r.chunks.is_empty() {
        req
    } else {
        let chunks: Vec<bytes::Bytes> = r.chunks.clone();
        let stalls: Vec<u32> = r.stalls.clone();
        let stream: actix_http::BoxedPayloadStream = if let Some((after, kind)) = break_plan(r) {
            use actix_http::error::PayloadError;
            let mut items: Vec<Result<bytes::Bytes, PayloadError>> = chunks.into_iter().take(after).map(Ok).collect();
            items.push(Err(match kind % 5 {
                0 => PayloadError::Incomplete(None),
                1 => PayloadError::EncodingCorrupted,
                2 => PayloadError::Overflow,
                3 => PayloadError::UnknownLength,
                _ => PayloadError::Io(std::io::Error::new(std::io::ErrorKind::ConnectionReset, "connection reset by peer")),
            }));
            Box::pin(futures::stream::iter(items))
        } else if let Some(days) = r.headers.iter().find(|(n, _)| n == STEP_PSEUDO_HEADER).and_then(|(_, v)| String::from_utf8_lossy(v).parse::<i64>().ok()) {
            // first chunk, then the clock jumps (and the stall, if any, elapses), then the rest
            Box::pin(futures::stream::unfold((chunks.into_iter(), stalls.into_iter(), 0usize, days), |(mut c, mut s, k, days)| async move {
                let chunk = c.next()?;
                let stall = s.next().unwrap_or(0);
                if k == 1 {
                    crate::clock::step(days * 86400);
                }
                if stall > 0 {
                    tokio::time::sleep(std::time::Duration::from_secs(stall as u64)).await;
                }
                Some((Ok::<_, actix_http::error::PayloadError>(chunk), (c, s, k + 1, days)))
            }))
        } else if stalls.iter().all(|s| *s == 0) {
            Box::pin(futures::stream::iter(chunks.into_iter().map(Ok::<_, actix_http::error::PayloadError>)))
        } else {
            // a slow upload: time passes (on the runtime's clock, which the caller has paused, so
            // it costs no wall time) before a chunk arrives
            Box::pin(futures::stream::unfold((chunks.into_iter(), stalls.into_iter()), |(mut c, mut s)| async move {
                let chunk = c.next()?;
                if let Some(secs) = s.next() {
                    if secs > 0 {
                        tokio::time::sleep(std::time::Duration::from_secs(secs as u64)).await;
                    }
                }
                Some((Ok::<_, actix_http::error::PayloadError>(chunk), (c, s)))
            }))
        };
        let (req, _) = req.replace_payload(actix_http::Payload::Stream { payload: stream });
        req
    }
}

async fn serve(mut ws: WebServer, rx: mpsc::Receiver<Msg>) {
    use actix_web::{test, App};
    'outer: loop {
        let w = ws.clone();
        let app = test::init_service(App::new().configure(move |sc| w.config(sc))).await;
        loop {
            match rx.recv() {
                Ok(Msg::Req(r, back)) => {
                    let req = build_request(&r);
                    let slow = r.stalls.iter().any(|s| *s > 0);
                    if slow {
                        // virtual time: timers fire in order, nobody waits
                        tokio::time::pause();
                    }
                    let result = test::try_call_service(&app, req).await;
                    if slow {
                        tokio::time::resume();
                    }
                    let resp = match result {
                        Ok(resp) => {
                            let status = resp.status().as_u16();
                            let headers = resp
                                .headers()
                                .iter()
                                .map(|(n, v)| (n.as_str().to_string(), v.as_bytes().to_vec()))
                                .collect();
                            let body = test::read_body(resp).await.to_vec();
                            HttpResp { status, headers, body, service_error: false, crashed: None }
                        }
                        Err(e) => {
                            let r = e.error_response();
                            let status = r.status().as_u16();
                            let headers = r
                                .headers()
                                .iter()
                                .map(|(n, v)| (n.as_str().to_string(), v.as_bytes().to_vec()))
                                .collect();
                            HttpResp { status, headers, body: vec![], service_error: true, crashed: None }
                        }
                    };
                    let _ = back.send(resp);
                }
                Ok(Msg::Rebuild(w)) => {
                    ws = w;
                    continue 'outer;
                }
                Ok(Msg::Stop) | Err(_) => break 'outer,
            }
        }
    }
}

impl HttpHandle {
    pub fn new(ws: WebServer) -> HttpHandle {
        let (tx, rx) = mpsc::channel::<Msg>();
        let panic_msg = Arc::new(Mutex::new(None));
        let pm = panic_msg.clone();
        let join = std::thread::Builder::new()
            .name("tcss-http".into())
            .spawn(move || {
                let r = std::panic::catch_unwind(std::panic::AssertUnwindSafe(|| {
                    actix_rt::System::new().block_on(serve(ws, rx));
                }));
                if let Err(p) = r {
                    let m = if let Some(s) = p.downcast_ref::<&str>() {
                        s.to_string()
                    } else if let Some(s) = p.downcast_ref::<String>() {
                        s.clone()
                    } else {
                        "<panic>".to_string()
                    };
                    *pm.lock().unwrap() = Some(m);
                }
            })
            .expect("spawn http thread");
        HttpHandle { tx, join: Some(join), panic_msg }
    }

    pub fn call(&self, r: HttpReq) -> HttpResp {
        let (btx, brx) = mpsc::channel();
        if self.tx.send(Msg::Req(r, btx)).is_err() {
            return self.dead();
        }
        match brx.recv() {
            Ok(r) => r,
            Err(_) => self.dead(),
        }
    }

    fn dead(&self) -> HttpResp {
        // give the thread a moment to record its panic message
        for _ in 0..200 {
            if self.panic_msg.lock().unwrap().is_some() {
                break;
            }
            std::thread::sleep(std::time::Duration::from_millis(1));
        }
        let m = self.panic_msg.lock().unwrap().clone().unwrap_or_else(|| "service thread gone".into());
        HttpResp { status: 0, crashed: Some(m), ..Default::default() }
    }

    pub fn rebuild(&self, ws: WebServer) {
        let _ = self.tx.send(Msg::Rebuild(ws));
    }
}

impl Drop for HttpHandle {
    fn drop(&mut self) {
        let _ = self.tx.send(Msg::Stop);
        if let Some(j) = self.join.take() {
            let _ = j.join();
        }
    }
}

pub const CT_HS: &str = "application/vnd.taskchampion.history-segment";
pub const CT_SNAP: &str = "application/vnd.taskchampion.snapshot";

pub fn req_add_version(c: Uuid, parent: Uuid, chunks: Vec<bytes::Bytes>) -> HttpReq {
    HttpReq {
        method: "POST".into(),
        path: format!("/v1/client/add-version/{parent}"),
        headers: vec![
            ("X-Client-Id".into(), c.to_string().into_bytes()),
            ("Content-Type".into(), CT_HS.as_bytes().to_vec()),
        ],
        chunks,
        stalls: vec![],
    }
}
pub fn req_get_child(c: Uuid, parent: Uuid) -> HttpReq {
    HttpReq {
        method: "GET".into(),
        path: format!("/v1/client/get-child-version/{parent}"),
        headers: vec![("X-Client-Id".into(), c.to_string().into_bytes())],
        chunks: vec![],
        stalls: vec![],
    }
}
pub fn req_add_snapshot(c: Uuid, v: Uuid, chunks: Vec<bytes::Bytes>) -> HttpReq {
    HttpReq {
        method: "POST".into(),
        path: format!("/v1/client/add-snapshot/{v}"),
        headers: vec![
            ("X-Client-Id".into(), c.to_string().into_bytes()),
            ("Content-Type".into(), CT_SNAP.as_bytes().to_vec()),
        ],
        chunks,
        stalls: vec![],
    }
}
pub fn req_get_snapshot(c: Uuid) -> HttpReq {
    HttpReq {
        method: "GET".into(),
        path: "/v1/client/snapshot".into(),
        headers: vec![("X-Client-Id".into(), c.to_string().into_bytes())],
        chunks: vec![],
        stalls: vec![],
    }
}

#[derive(Clone, Copy, Debug, PartialEq, Eq)]
pub enum Endpoint {
    AddVersion,
    GetChild,
    AddSnapshot,
    GetSnapshot,
}

fn parse_uuid_header(r: &HttpResp, name: &str) -> Result<Uuid, String> {
    let all = r.header_all(name);
    if all.len() != 1 {
        return Err(format!("expected exactly one {name} header, got {}", all.len()));
    }
    let s = std::str::from_utf8(all[0]).map_err(|_| format!("{name} not text"))?;
    Uuid::parse_str(s).map_err(|_| format!("{name} not an id: {s:?}"))
}

/// Cut `data` into chunks of the given sizes, applied cyclically (0 = an empty chunk).  An empty
/// or all-zero size list means one chunk.
pub fn cut(data: &bytes::Bytes, sizes: &[u32]) -> Vec<bytes::Bytes> {
    if sizes.iter().all(|s| *s == 0) {
        return vec![data.clone()];
    }
    let mut out = vec![];
    let mut pos = 0usize;
    let mut i = 0usize;
    while pos < data.len() {
        let s = sizes[i % sizes.len()] as usize;
        i += 1;
        let end = (pos + s).min(data.len());
        out.push(data.slice(pos..end));
        pos = end;
        if out.len() > 4_000_000 {
            out.push(data.slice(pos..));
            break;
        }
    }
    // trailing empty chunks, if the pattern has them next
    if sizes[i % sizes.len()] == 0 {
        out.push(bytes::Bytes::new());
    }
    out
}

/// Lenient decoding of a response into a protocol outcome (the strict table is C14's business).
pub fn decode(ep: Endpoint, r: &HttpResp) -> Outcome {
    if let Some(m) = &r.crashed {
        return Outcome::Error { what: format!("handler panicked: {m}") };
    }
    if r.status >= 500 {
        return Outcome::Error { what: format!("HTTP {} {}", r.status, String::from_utf8_lossy(&r.body)) };
    }
    let bad = |m: String| Outcome::Error { what: format!("undecodable response (HTTP {}): {m}", r.status) };
    match (ep, r.status) {
        (Endpoint::AddVersion, 200) => {
            let id = match parse_uuid_header(r, "X-Version-Id") {
                Ok(i) => i,
                Err(e) => return bad(e),
            };
            let urgency = match r.header_str("X-Snapshot-Request").as_deref() {
                None => Urg::None,
                Some("urgency=low") => Urg::Low,
                Some("urgency=high") => Urg::High,
                Some(o) => return bad(format!("X-Snapshot-Request: {o:?}")),
            };
            Outcome::Accepted { id, urgency }
        }
        (Endpoint::AddVersion, 409) => match parse_uuid_header(r, "X-Parent-Version-Id") {
            Ok(latest) => Outcome::Conflict { latest },
            Err(e) => bad(e),
        },
        (Endpoint::GetChild, 200) => {
            let id = match parse_uuid_header(r, "X-Version-Id") {
                Ok(i) => i,
                Err(e) => return bad(e),
            };
            let parent = match parse_uuid_header(r, "X-Parent-Version-Id") {
                Ok(i) => i,
                Err(e) => return bad(e),
            };
            Outcome::Found { id, parent, data: Arc::new(r.body.clone()) }
        }
        (Endpoint::GetChild, 404) => Outcome::NotFound,
        (Endpoint::GetChild, 410) => Outcome::Gone,
        (Endpoint::AddSnapshot, 200) => Outcome::SnapshotOk,
        (Endpoint::AddSnapshot, 404) => Outcome::NoSuchClient,
        (Endpoint::GetSnapshot, 200) => match parse_uuid_header(r, "X-Version-Id") {
            Ok(id) => Outcome::Snapshot { id, data: Arc::new(r.body.clone()) },
            Err(e) => bad(e),
        },
        (Endpoint::GetSnapshot, 404) => Outcome::NoSnapshot,
        (_, s) if (400..500).contains(&s) => Outcome::Refused { status: s },
        (_, s) => bad(format!("unexpected status {s}")),
    }
}

// ---------------------------------------------------------------------------------------------
// the driver

pub struct Driver {
    pub backend: Backend,
    pub via: Via,
    pub cfg: Cfg,
    pub allow: Option<HashSet<Uuid>>,
    factory: StorageFactory,
    /// the plain backend, for the harness's own probes and dumps
    pub storage: Arc<dyn Storage>,
    /// what the server is given (the same object unless a wrapper is in place)
    pub served: Arc<dyn Storage>,
    pub dir: Option<TempDir>,
    /// where the SQLite database lives when the directory is owned by somebody else
    pub db_path: Option<PathBuf>,
    server: Option<Server>,
    http: Option<HttpHandle>,
    /// text form of ids in paths and in the client-id header: 0 canonical, 1 upper case, 2 simple,
    /// 3 braced, 4 urn (C14 only: all of them name the same id)
    pub id_style: u8,
    /// index of a set of protocol-irrelevant request headers added to every request (0 = none)
    pub extra_headers: u8,
    /// reads are *revalidated*: after a read that returned a version id, the same read is made
    /// again with If-None-Match (and, every other time, If-Modified-Since) naming that id, as a
    /// caching client library would; the second answer is the one that counts - the protocol has
    /// no conditional reads, so it must be the same answer
    pub revalidate: bool,
    pub reval_seq: u32,
    /// the next upload's body is split in two and the wall clock is stepped forward by this many
    /// days between the halves (consumed by that upload; in-process HTTP only)
    pub step_during_upload: i64,
    /// a Content-Encoding header sent with uploads (the payload is opaque: the server stores the
    /// bytes it receives, whatever coding they are declared or happen to be in)
    pub content_encoding: Option<&'static str>,
    /// in-process uploads arrive in two halves with this many seconds of (virtual) time between them
    pub stall_secs: u32,
    /// appended to the Content-Type of uploads (e.g. "; charset=utf-8"): parameters do not change
    /// the media type (C14 only)
    pub ct_params: Option<String>,
    /// add a Content-Length header to uploads, as a real client sending an unchunked body does
    pub content_length: bool,
    /// how body bytes are cut into chunks for Http (None = one chunk)
    pub chunker: Option<Box<dyn FnMut(&[u8]) -> Vec<bytes::Bytes> + Send>>,
    /// when set, HTTP requests go to an external server (the real executable) instead of the
    /// in-process service
    pub ext: Option<Box<dyn FnMut(&HttpReq) -> HttpResp + Send>>,
    /// bodies in the exchange log are cut to this many bytes (C14 compares bodies: no cut)
    pub log_body_limit: usize,
    /// every raw HTTP exchange, if wanted (C14/C20)
    pub http_log: Option<Vec<(HttpReq, HttpResp)>>,
    pub reopens: u32,
}

impl Driver {
    pub fn new(backend: Backend, via: Via, cfg: &Cfg) -> anyhow::Result<Driver> {
        let (factory, dir) = match backend {
            Backend::Mem => (mem_factory(), None),
            Backend::Sqlite => {
                let d = TempDir::new("db");
                (sqlite_factory(d.path().to_path_buf()), Some(d))
            }
        };
        Driver::with_factory(backend, via, cfg, None, factory, dir)
    }

    pub fn with_factory(
        backend: Backend,
        via: Via,
        cfg: &Cfg,
        allow: Option<HashSet<Uuid>>,
        factory: StorageFactory,
        dir: Option<TempDir>,
    ) -> anyhow::Result<Driver> {
        let stores = factory()?;
        let mut d = Driver {
            backend,
            via,
            cfg: cfg.clone(),
            allow,
            factory,
            storage: stores.probe,
            served: stores.served,
            dir,
            db_path: None,
            server: None,
            http: None,
            id_style: 0,
            extra_headers: 0,
            revalidate: false,
            reval_seq: 0,
            step_during_upload: 0,
            content_encoding: None,
            stall_secs: 0,
            ct_params: None,
            content_length: false,
            chunker: None,
            ext: None,
            log_body_limit: 4096,
            http_log: None,
            reopens: 0,
        };
        d.build();
        Ok(d)
    }

    fn build(&mut self) {
        match self.via {
            Via::Lib => {
                self.server = Some(Server::new(server_config(&self.cfg), ArcStorage(self.served.clone())));
            }
            Via::Http => {
                let ws = WebServer::new(
                    server_config(&self.cfg),
                    self.allow.clone(),
                    ArcStorage(self.served.clone()),
                );
                match &self.http {
                    Some(h) => h.rebuild(ws),
                    None => self.http = Some(HttpHandle::new(ws)),
                }
            }
        }
    }

    pub fn db_dir(&self) -> Option<&Path> {
        self.db_path.as_deref().or(self.dir.as_ref().map(|d| d.path()))
    }

    /// Drop the storage object and everything built on it, then open again (persistent backend:
    /// schema setup re-runs).
    pub fn reopen(&mut self) -> anyhow::Result<()> {
        self.server = None;
        // the Http service keeps an Arc to the old storage until rebuilt; SqliteStorage holds no
        // connection between transactions, so nothing is pinned
        let stores = (self.factory)()?;
        self.storage = stores.probe;
        self.served = stores.served;
        self.build();
        self.reopens += 1;
        Ok(())
    }

    /// Replace allow-list / config and rebuild the service on the same storage.
    pub fn reconfigure(&mut self, cfg: &Cfg, allow: Option<HashSet<Uuid>>) {
        self.cfg = cfg.clone();
        self.allow = allow;
        self.server = None;
        self.build();
    }

    /// a slow upload: two halves, the second after `stall_secs`
    fn slow(&mut self, rq: &mut HttpReq, data: &[u8]) {
        if self.step_during_upload != 0 && data.len() >= 2 && self.ext.is_none() {
            let b = bytes::Bytes::copy_from_slice(data);
            let mid = data.len() / 2;
            rq.chunks = vec![b.slice(..mid), b.slice(mid..)];
            rq.stalls = vec![0, self.stall_secs];
            rq.headers.push((STEP_PSEUDO_HEADER.into(), self.step_during_upload.to_string().into_bytes()));
            self.step_during_upload = 0;
            return;
        }
        if self.stall_secs > 0 && data.len() >= 2 && self.ext.is_none() {
            let b = bytes::Bytes::copy_from_slice(data);
            let mid = data.len() / 2;
            rq.chunks = vec![b.slice(..mid), b.slice(mid..)];
            rq.stalls = vec![0, self.stall_secs];
        }
    }

    fn chunks(&mut self, data: &[u8]) -> Vec<bytes::Bytes> {
        match &mut self.chunker {
            Some(f) => f(data),
            None => vec![bytes::Bytes::copy_from_slice(data)],
        }
    }

    /// Rewrite the canonical ids of a request built by `req_*` into another accepted text form.
    fn restyle(&self, r: &mut HttpReq) {
        if self.id_style == 0 {
            return;
        }
        let style = |u: Uuid, in_path: bool| -> String {
            let c = u.hyphenated().to_string();
            match self.id_style {
                1 => c.to_uppercase(),
                2 => u.simple().to_string(),
                3 => {
                    if in_path {
                        format!("%7B{c}%7D")
                    } else {
                        format!("{{{c}}}")
                    }
                }
                _ => format!("urn:uuid:{c}"),
            }
        };
        if let Some(pos) = r.path.rfind('/') {
            if let Ok(u) = Uuid::parse_str(&r.path[pos + 1..]) {
                r.path = format!("{}/{}", &r.path[..pos], style(u, true));
            }
        }
        for (n, v) in r.headers.iter_mut() {
            if n.eq_ignore_ascii_case("x-client-id") {
                if let Ok(u) = Uuid::parse_str(&String::from_utf8_lossy(v)) {
                    *v = style(u, false).into_bytes();
                }
            }
        }
    }

    pub fn http_call(&mut self, mut r: HttpReq) -> HttpResp {
        self.restyle(&mut r);
        if self.extra_headers != 0 {
            r.headers.extend(extra_header_set(self.extra_headers));
        }
        let resp = match &mut self.ext {
            Some(f) => f(&r),
            None => self.http.as_ref().expect("http driver").call(r.clone()),
        };
        if let Some(log) = &mut self.http_log {
            let mut rq = r;
            // keep logs small
            if rq.chunks.iter().map(|c| c.len()).sum::<usize>() > self.log_body_limit {
                rq.chunks = vec![];
            }
            let mut rs = resp.clone();
            if rs.body.len() > self.log_body_limit {
                rs.body.truncate(self.log_body_limit);
            }
            log.push((rq, rs));
        }
        if resp.crashed.is_some() && self.ext.is_none() {
            // the service thread is gone; build a new one so the case can go on
            self.http = None;
            self.build();
        }
        resp
    }

    fn revalidated(&mut self, mut again: HttpReq, first: HttpResp) -> HttpResp {
        if !self.revalidate || first.status != 200 {
            return first;
        }
        let Some(id) = first.header_str("X-Version-Id") else { return first };
        self.reval_seq = self.reval_seq.wrapping_add(1);
        let tag = match self.reval_seq % 4 {
            0 => format!("\"{id}\""),
            1 => format!("W/\"{id}\""),
            2 => format!("\"other\", \"{id}\""),
            _ => id.clone(),
        };
        again.headers.push(("If-None-Match".into(), tag.into_bytes()));
        if self.reval_seq % 2 == 0 {
            again.headers.push(("If-Modified-Since".into(), b"Fri, 01 Jan 2100 00:00:00 GMT".to_vec()));
        }
        self.http_call(again)
    }

    /// Protocol-level AddVersion: includes the documented creation of an unknown client.
    pub fn add_version(&mut self, c: Uuid, parent: Uuid, data: &[u8]) -> Outcome {
        match self.via {
            Via::Lib => {
                let srv = self.server.as_ref().unwrap();
                let mut created = false;
                loop {
                    return match srv.add_version(c, parent, data.to_vec()) {
                        Ok((AddVersionResult::Ok(id), u)) => Outcome::Accepted { id, urgency: urg(u) },
                        Ok((AddVersionResult::ExpectedParentVersion(l), _)) => Outcome::Conflict { latest: l },
                        Err(ServerError::NoSuchClient) if !created => {
                            created = true;
                            // what the HTTP handler does, and what any embedding of the library
                            // has to do: create the client, then retry
                            let r = (|| -> anyhow::Result<()> {
                                let mut txn = srv.txn(c).map_err(|e| anyhow::anyhow!("{e}"))?;
                                if txn.get_client()?.is_none() {
                                    txn.new_client(Uuid::nil())?;
                                    txn.commit()?;
                                }
                                Ok(())
                            })();
                            if let Err(e) = r {
                                return Outcome::Error { what: format!("creating client: {e:#}") };
                            }
                            continue;
                        }
                        Err(ServerError::NoSuchClient) => Outcome::NoSuchClient,
                        Err(e) => Outcome::Error { what: format!("{e:#}") },
                    };
                }
            }
            Via::Http => {
                let chunks = self.chunks(data);
                let mut rq = req_add_version(c, parent, chunks);
                self.slow(&mut rq, data);
                if let Some(ce) = self.content_encoding {
                    rq.headers.push(("Content-Encoding".into(), ce.as_bytes().to_vec()));
                }
                if let Some(p) = &self.ct_params {
                    rq.headers[1].1.extend_from_slice(p.as_bytes());
                }
                if self.content_length {
                    rq.headers.push(("Content-Length".into(), data.len().to_string().into_bytes()));
                }
                let r = self.http_call(rq);
                decode(Endpoint::AddVersion, &r)
            }
        }
    }

    pub fn get_child(&mut self, c: Uuid, parent: Uuid) -> Outcome {
        match self.via {
            Via::Lib => match self.server.as_ref().unwrap().get_child_version(c, parent) {
                Ok(GetVersionResult::Success { version_id, parent_version_id, history_segment }) => {
                    Outcome::Found { id: version_id, parent: parent_version_id, data: Arc::new(history_segment) }
                }
                Ok(GetVersionResult::NotFound) => Outcome::NotFound,
                Ok(GetVersionResult::Gone) => Outcome::Gone,
                Err(ServerError::NoSuchClient) => Outcome::NoSuchClient,
                Err(e) => Outcome::Error { what: format!("{e:#}") },
            },
            Via::Http => {
                let r = self.http_call(req_get_child(c, parent));
                let r = self.revalidated(req_get_child(c, parent), r);
                decode(Endpoint::GetChild, &r)
            }
        }
    }

    pub fn add_snapshot(&mut self, c: Uuid, v: Uuid, data: &[u8]) -> Outcome {
        match self.via {
            Via::Lib => match self.server.as_ref().unwrap().add_snapshot(c, v, data.to_vec()) {
                Ok(()) => Outcome::SnapshotOk,
                Err(ServerError::NoSuchClient) => Outcome::NoSuchClient,
                Err(e) => Outcome::Error { what: format!("{e:#}") },
            },
            Via::Http => {
                let chunks = self.chunks(data);
                let mut rq = req_add_snapshot(c, v, chunks);
                self.slow(&mut rq, data);
                if let Some(ce) = self.content_encoding {
                    rq.headers.push(("Content-Encoding".into(), ce.as_bytes().to_vec()));
                }
                if let Some(p) = &self.ct_params {
                    rq.headers[1].1.extend_from_slice(p.as_bytes());
                }
                if self.content_length {
                    rq.headers.push(("Content-Length".into(), data.len().to_string().into_bytes()));
                }
                let r = self.http_call(rq);
                decode(Endpoint::AddSnapshot, &r)
            }
        }
    }

    pub fn get_snapshot(&mut self, c: Uuid) -> Outcome {
        match self.via {
            Via::Lib => match self.server.as_ref().unwrap().get_snapshot(c) {
                Ok(Some((id, data))) => Outcome::Snapshot { id, data: Arc::new(data) },
                Ok(None) => Outcome::NoSnapshot,
                Err(ServerError::NoSuchClient) => Outcome::NoSuchClient,
                Err(e) => Outcome::Error { what: format!("{e:#}") },
            },
            Via::Http => {
                let r = self.http_call(req_get_snapshot(c));
                let r = self.revalidated(req_get_snapshot(c), r);
                decode(Endpoint::GetSnapshot, &r)
            }
        }
    }

    /// Time travel (DESIGN.md 1.1): rewrite the snapshot's timestamp through the public storage
    /// API - same version, bytes and counter - so that it is exactly `days` whole days old.
    /// Returns false if the client has no snapshot.
    pub fn age_snapshot(&mut self, c: Uuid, days: i64) -> anyhow::Result<bool> {
        let mut txn = self.storage.txn(c)?;
        let Some(client) = txn.get_client()? else { return Ok(false) };
        let Some(snap) = client.snapshot else { return Ok(false) };
        let Some(data) = txn.get_snapshot_data(snap.version_id)? else { return Ok(false) };
        // anywhere inside the d-th day: one hour, thirteen hours or almost a whole day past the
        // boundary, so that num_days() is d whichever way an implementation rounds
        let now = chrono::Utc::now();
        let since_midnight = now.timestamp().rem_euclid(86400);
        // ... or just before the last UTC midnight (a calendar day earlier than an age in whole
        // days suggests)
        let within = [3600, 13 * 3600, 23 * 3600 + 1800, (since_midnight + 30).min(86399)][(days.rem_euclid(4)) as usize];
        let ts = now - chrono::Duration::seconds(days * 86400 + within);
        txn.set_snapshot(
            Snapshot { version_id: snap.version_id, timestamp: ts, versions_since: snap.versions_since },
            data,
        )?;
        txn.commit()?;
        Ok(true)
    }

    /// The state between the two transactions of a first AddVersion: a client record with no
    /// versions.  Returns false (and changes nothing) if the server already knows the client.
    pub fn new_empty_client(&mut self, c: Uuid) -> anyhow::Result<bool> {
        let mut txn = self.storage.txn(c)?;
        if txn.get_client()?.is_some() {
            return Ok(false);
        }
        txn.new_client(Uuid::nil())?;
        txn.commit()?;
        Ok(true)
    }

    pub fn api_dump(&self, clients: &[Uuid], ids: &[Uuid]) -> anyhow::Result<ApiDump> {
        api_dump(&*self.storage, clients, ids)
    }

    pub fn raw_dump(&self) -> anyhow::Result<Option<RawDump>> {
        match self.db_dir() {
            Some(d) => Ok(Some(raw_dump(d)?)),
            None => Ok(None),
        }
    }

    /// The strongest dump that is cheap for this backend: raw SQL for SQLite (complete by
    /// construction), API-level for memory.
    pub fn dump(&self, clients: &[Uuid], ids: &[Uuid]) -> anyhow::Result<Dump> {
        match self.backend {
            Backend::Sqlite => Ok(Dump::Raw(raw_dump(self.db_dir().unwrap())?)),
            Backend::Mem => Ok(Dump::Api(self.api_dump(clients, ids)?)),
        }
    }
}

// ---------------------------------------------------------------------------------------------
// dumps

pub fn hash_bytes(b: &[u8]) -> u64 {
    // FNV-1a, 64 bit: deterministic across runs
    let mut h: u64 = 0xcbf29ce484222325;
    for x in b {
        h ^= *x as u64;
        h = h.wrapping_mul(0x100000001b3);
    }
    h
}

#[derive(Clone, Debug, PartialEq, Eq, Default)]
pub struct ClientDump {
    pub exists: bool,
    pub latest: Uuid,
    /// (version, timestamp seconds, versions_since, data hash, data len) ; data None if the
    /// storage has metadata but no bytes
    pub snapshot: Option<(Uuid, i64, u32, Option<(u64, usize)>)>,
    /// id -> (parent, hash, len)
    pub versions: BTreeMap<Uuid, (Uuid, u64, usize)>,
    /// parent -> child id
    pub by_parent: BTreeMap<Uuid, Uuid>,
}

#[derive(Clone, Debug, PartialEq, Eq, Default)]
pub struct ApiDump {
    pub clients: BTreeMap<Uuid, ClientDump>,
}

pub fn api_dump(storage: &dyn Storage, clients: &[Uuid], ids: &[Uuid]) -> anyhow::Result<ApiDump> {
    let mut out = ApiDump::default();
    for c in clients {
        let mut txn = storage.txn(*c)?;
        let mut cd = ClientDump::default();
        if let Some(cl) = txn.get_client()? {
            cd.exists = true;
            cd.latest = cl.latest_version_id;
            if let Some(s) = cl.snapshot {
                let data = txn.get_snapshot_data(s.version_id)?;
                cd.snapshot = Some((
                    s.version_id,
                    s.timestamp.timestamp(),
                    s.versions_since,
                    data.map(|d| (hash_bytes(&d), d.len())),
                ));
            }
        }
        for id in ids {
            if let Some(v) = txn.get_version(*id)? {
                cd.versions.insert(*id, (v.parent_version_id, hash_bytes(&v.history_segment), v.history_segment.len()));
                if v.version_id != *id {
                    anyhow::bail!("get_version({id}) returned version {}", v.version_id);
                }
            }
            if let Some(v) = txn.get_version_by_parent(*id)? {
                cd.by_parent.insert(*id, v.version_id);
                if v.parent_version_id != *id {
                    anyhow::bail!("get_version_by_parent({id}) returned a version with parent {}", v.parent_version_id);
                }
            }
        }
        out.clients.insert(*c, cd);
    }
    Ok(out)
}

/// Every row of every table, types preserved, payloads hashed.
#[derive(Clone, Debug, PartialEq, Eq, Default)]
pub struct RawDump {
    pub tables: BTreeMap<String, (Vec<String>, Vec<Vec<String>>)>,
}

pub fn raw_dump(dir: &Path) -> anyhow::Result<RawDump> {
    use rusqlite::types::ValueRef;
    let con = rusqlite::Connection::open(dir.join("taskchampion-sync-server.sqlite3"))?;
    con.busy_timeout(std::time::Duration::from_secs(30))?;
    let mut out = RawDump::default();
    let names: Vec<String> = {
        let mut st = con.prepare("SELECT name FROM sqlite_master WHERE type='table' ORDER BY name")?;
        let r = st.query_map([], |r| r.get::<_, String>(0))?.collect::<Result<Vec<_>, _>>()?;
        r
    };
    for t in names {
        let mut st = con.prepare(&format!("SELECT * FROM \"{t}\""))?;
        let cols: Vec<String> = st.column_names().iter().map(|s| s.to_string()).collect();
        let n = cols.len();
        let mut rows = vec![];
        let mut q = st.query([])?;
        while let Some(r) = q.next()? {
            let mut row = Vec::with_capacity(n);
            for i in 0..n {
                row.push(match r.get_ref(i)? {
                    ValueRef::Null => "NULL".to_string(),
                    ValueRef::Integer(i) => format!("I:{i}"),
                    ValueRef::Real(f) => format!("R:{f}"),
                    ValueRef::Text(t) => format!("T:{}", String::from_utf8_lossy(t)),
                    ValueRef::Blob(b) => format!("B:{}:{:016x}", b.len(), hash_bytes(b)),
                });
            }
            rows.push(row);
        }
        rows.sort();
        out.tables.insert(t, (cols, rows));
    }
    Ok(out)
}

#[derive(Clone, Debug, PartialEq, Eq)]
pub enum Dump {
    Api(ApiDump),
    Raw(RawDump),
}

/// A readable description of the first difference between two dumps.
pub fn diff_dumps(a: &Dump, b: &Dump) -> Option<String> {
    if a == b {
        return None;
    }
    match (a, b) {
        (Dump::Api(x), Dump::Api(y)) => {
            for (c, cx) in &x.clients {
                let cy = y.clients.get(c);
                if Some(cx) != cy {
                    return Some(format!("client {c}: before {cx:?} after {cy:?}"));
                }
            }
            Some("client sets differ".into())
        }
        (Dump::Raw(x), Dump::Raw(y)) => {
            for (t, (cols, rows)) in &x.tables {
                match y.tables.get(t) {
                    None => return Some(format!("table {t} disappeared")),
                    Some((c2, r2)) => {
                        if cols != c2 {
                            return Some(format!("table {t}: columns {cols:?} -> {c2:?}"));
                        }
                        for r in rows {
                            if !r2.contains(r) {
                                return Some(format!("table {t}: row {r:?} changed or vanished; after: {r2:?}"));
                            }
                        }
                        for r in r2 {
                            if !rows.contains(r) {
                                return Some(format!("table {t}: new or changed row {r:?}"));
                            }
                        }
                    }
                }
            }
            Some("table sets differ".into())
        }
        _ => Some("dump kinds differ".into()),
    }
}

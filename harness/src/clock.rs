//! A wall clock the harness can step.  `clock_gettime` is defined here, in the executable, so every
//! caller in this process - std's `SystemTime::now`, hence chrono's `Utc::now`, hence the server's
//! notion of "now" - gets the real time plus an offset the harness controls; only CLOCK_REALTIME
//! and its coarse variant are shifted, the monotonic clocks (timers, `Instant`) are not.  This is
//! what an operator's clock does when NTP corrects it or a VM is resumed: wall-clock time jumps
//! while the process keeps running.

use std::sync::atomic::{AtomicI64, Ordering};

static OFFSET_SECS: AtomicI64 = AtomicI64::new(0);
static FROZEN: std::sync::atomic::AtomicBool = std::sync::atomic::AtomicBool::new(false);

/// From now on this process never steps its clock (libFuzzer measures its time limits with the
/// same clock; a stepped clock looks like a unit that ran for days).
pub fn freeze() {
    FROZEN.store(true, Ordering::SeqCst);
    OFFSET_SECS.store(0, Ordering::SeqCst);
}

pub fn is_frozen() -> bool {
    FROZEN.load(Ordering::SeqCst)
}

/// Step the wall clock of this process by `secs` (positive = forward).
pub fn step(secs: i64) {
    if !is_frozen() {
        OFFSET_SECS.fetch_add(secs, Ordering::SeqCst);
    }
}

/// Back to the real time.
pub fn reset() {
    OFFSET_SECS.store(0, Ordering::SeqCst);
}

pub fn offset() -> i64 {
    OFFSET_SECS.load(Ordering::SeqCst)
}

/// # Safety
/// Same contract as the C library's `clock_gettime`.
#[no_mangle]
pub unsafe extern "C" fn clock_gettime(clk: libc::clockid_t, ts: *mut libc::timespec) -> libc::c_int {
    let r = libc::syscall(libc::SYS_clock_gettime, clk as libc::c_long, ts) as libc::c_int;
    if r == 0 && !ts.is_null() && (clk == libc::CLOCK_REALTIME || clk == libc::CLOCK_REALTIME_COARSE) {
        let off = OFFSET_SECS.load(Ordering::Relaxed);
        if off != 0 {
            (*ts).tv_sec += off as libc::time_t;
        }
    }
    r
}

//! Real sockets: an actix `HttpServer` around the same `WebServer` on 127.0.0.1:0, and a small raw
//! HTTP/1.1 client over `TcpStream` (Content-Length and chunked uploads, generated write sizes).
//! The raw client is also used to talk to the real executable (C17).

use crate::driver::{HttpReq, HttpResp};
use std::io::{Read, Write};
use std::net::{SocketAddr, TcpStream};
use std::sync::mpsc;
use std::time::Duration;
use taskchampion_sync_server::WebServer;

pub struct SockServer {
    pub addr: SocketAddr,
    handle: actix_web::dev::ServerHandle,
    join: Option<std::thread::JoinHandle<()>>,
}

impl SockServer {
    pub fn start(ws: WebServer) -> anyhow::Result<SockServer> {
        SockServer::start_workers(ws, 1)
    }

    /// An HttpServer with several worker threads: consecutive connections land on different
    /// workers, each with its own application instance.
    pub fn start_workers(ws: WebServer, workers: usize) -> anyhow::Result<SockServer> {
        let (tx, rx) = mpsc::channel();
        let join = std::thread::Builder::new().name("tcss-sock".into()).spawn(move || {
            let r = actix_rt::System::new().block_on(async move {
                let srv = actix_web::HttpServer::new(move || {
                    let ws = ws.clone();
                    actix_web::App::new().configure(move |c| ws.config(c))
                })
                .workers(workers.max(1))
                .disable_signals()
                .shutdown_timeout(1)
                .bind("127.0.0.1:0");
                let srv = match srv {
                    Ok(s) => s,
                    Err(e) => {
                        let _ = tx.send(Err(anyhow::anyhow!("bind: {e}")));
                        return;
                    }
                };
                let addr = srv.addrs()[0];
                let server = srv.run();
                let _ = tx.send(Ok((addr, server.handle())));
                let _ = server.await;
            });
            let _ = r;
        })?;
        let (addr, handle) = rx.recv_timeout(Duration::from_secs(90)).map_err(|_| anyhow::anyhow!("socket server did not start"))??;
        Ok(SockServer { addr, handle, join: Some(join) })
    }
}

impl Drop for SockServer {
    fn drop(&mut self) {
        futures::executor::block_on(self.handle.stop(false));
        if let Some(j) = self.join.take() {
            let _ = j.join();
        }
    }
}

#[derive(Clone, Copy, Debug, PartialEq, Eq, Hash, serde::Serialize, serde::Deserialize)]
pub enum Encoding {
    ContentLength,
    Chunked,
}

#[derive(Debug)]
pub enum SockError {
    /// the connection ended before a status line arrived (e.g. reset while we were still
    /// uploading a body the server had already refused): inconclusive, never a violation
    NoResponse(String),
    Io(String),
}

fn write_all_in_pieces(s: &mut TcpStream, data: &[u8], sizes: &[u32], k: &mut usize) -> std::io::Result<()> {
    let mut pos = 0;
    while pos < data.len() {
        let sz = if sizes.is_empty() { data.len() } else { (sizes[*k % sizes.len()] as usize).max(1) };
        *k += 1;
        let end = (pos + sz).min(data.len());
        s.write_all(&data[pos..end])?;
        pos = end;
    }
    Ok(())
}

/// One request on a fresh connection (`Connection: close`), response read to the end.
pub fn exchange(addr: SocketAddr, req: &HttpReq, enc: Encoding, write_sizes: &[u32], timeout: Duration) -> Result<HttpResp, SockError> {
    let mut s = TcpStream::connect_timeout(&addr, timeout).map_err(|e| SockError::Io(format!("connect {addr}: {e}")))?;
    let _ = s.set_read_timeout(Some(timeout));
    let _ = s.set_write_timeout(Some(timeout));
    let _ = s.set_nodelay(true);
    let total: usize = req.chunks.iter().map(|c| c.len()).sum();
    let mut head = Vec::new();
    // the pseudo header ":http-version: 1.0" asks for an HTTP/1.0 request (which knows no chunked
    // transfer coding)
    let http10 = req.headers.iter().any(|(n, v)| n == crate::driver::VERSION_PSEUDO_HEADER && v == b"1.0");
    let enc = if http10 { Encoding::ContentLength } else { enc };
    // a transfer that breaks: chunked, and after so many good chunks the framing turns to garbage
    let brk = if http10 { None } else { crate::driver::break_plan(req) };
    let enc = if brk.is_some() { Encoding::Chunked } else { enc };
    head.extend_from_slice(format!("{} {} HTTP/{}\r\nHost: {}\r\nConnection: close\r\n", req.method, req.path, if http10 { "1.0" } else { "1.1" }, addr).as_bytes());
    for (n, v) in &req.headers {
        // the framing headers are this function's business
        if n.eq_ignore_ascii_case("content-length") || n.eq_ignore_ascii_case("transfer-encoding") || n == crate::driver::VERSION_PSEUDO_HEADER || n == crate::driver::BREAK_PSEUDO_HEADER || n == crate::driver::STEP_PSEUDO_HEADER || n == crate::driver::ALSO_CL_PSEUDO_HEADER {
            continue;
        }
        head.extend_from_slice(n.as_bytes());
        head.extend_from_slice(b": ");
        head.extend_from_slice(v);
        head.extend_from_slice(b"\r\n");
    }
    let has_body = !req.chunks.is_empty();
    if http10 && !has_body && !matches!(req.method.as_str(), "GET" | "HEAD") {
        // RFC 1945 8.3: "A valid Content-Length is required on all HTTP/1.0 POST requests"
        head.extend_from_slice(b"Content-Length: 0\r\n");
    }
    if has_body {
        match enc {
            Encoding::ContentLength => head.extend_from_slice(format!("Content-Length: {total}\r\n").as_bytes()),
            Encoding::Chunked => {
                head.extend_from_slice(b"Transfer-Encoding: chunked\r\n");
                if let Some((_, v)) = req.headers.iter().find(|(n, _)| n == crate::driver::ALSO_CL_PSEUDO_HEADER) {
                    head.extend_from_slice(b"Content-Length: ");
                    head.extend_from_slice(v);
                    head.extend_from_slice(b"\r\n");
                }
            }
        }
    }
    head.extend_from_slice(b"\r\n");
    let mut k = 0usize;
    let mut werr = None;
    let wr = (|| -> std::io::Result<()> {
        write_all_in_pieces(&mut s, &head, write_sizes, &mut k)?;
        if has_body {
            let mut sent = 0usize;
            for c in &req.chunks {
                if let Some((after, kind)) = brk {
                    if sent >= after {
                        // not a chunk-size line
                        let junk: &[u8] = match kind % 3 {
                            0 => b"zz\r\nxxxx\r\n",
                            1 => b"ffffffffffffffffffffff\r\n",
                            _ => b"\r\n\r\n",
                        };
                        s.write_all(junk)?;
                        s.flush()?;
                        let _ = s.shutdown(std::net::Shutdown::Write);
                        return Ok(());
                    }
                }
                if !c.is_empty() {
                    sent += 1;
                }
                match enc {
                    Encoding::ContentLength => write_all_in_pieces(&mut s, c, write_sizes, &mut k)?,
                    Encoding::Chunked => {
                        if c.is_empty() {
                            continue; // a zero-length chunk would end the body
                        }
                        s.write_all(format!("{:x}\r\n", c.len()).as_bytes())?;
                        write_all_in_pieces(&mut s, c, write_sizes, &mut k)?;
                        s.write_all(b"\r\n")?;
                    }
                }
            }
            if brk.is_some() {
                s.write_all(b"zz\r\nxxxx\r\n")?;
                s.flush()?;
                let _ = s.shutdown(std::net::Shutdown::Write);
                return Ok(());
            }
            if enc == Encoding::Chunked {
                s.write_all(b"0\r\n\r\n")?;
            }
        }
        s.flush()
    })();
    if let Err(e) = wr {
        werr = Some(e.to_string());
    }
    let mut buf = Vec::new();
    let mut tmp = [0u8; 65536];
    loop {
        match s.read(&mut tmp) {
            Ok(0) => break,
            Ok(n) => buf.extend_from_slice(&tmp[..n]),
            Err(e) => {
                if buf.is_empty() {
                    return Err(SockError::NoResponse(format!("read: {e}; write: {werr:?}")));
                }
                break;
            }
        }
    }
    parse_response(&buf, req.method == "HEAD").ok_or_else(|| SockError::NoResponse(format!("{} bytes received, no complete response; write: {werr:?}", buf.len())))
}

/// A persistent (keep-alive) connection: several requests, possibly of different clients, travel
/// over one TCP connection, as behind a connection-pooling proxy.
pub struct KeepAlive {
    addr: SocketAddr,
    stream: Option<TcpStream>,
    pub requests_on_this_connection: u32,
}

impl KeepAlive {
    pub fn new(addr: SocketAddr) -> KeepAlive {
        KeepAlive { addr, stream: None, requests_on_this_connection: 0 }
    }

    pub fn call(&mut self, req: &HttpReq, timeout: Duration) -> Result<HttpResp, SockError> {
        // one retry on a fresh connection if the server closed the old one meanwhile
        for attempt in 0..2 {
            if self.stream.is_none() {
                let s = TcpStream::connect_timeout(&self.addr, timeout).map_err(|e| SockError::Io(format!("connect {}: {e}", self.addr)))?;
                let _ = s.set_read_timeout(Some(timeout));
                let _ = s.set_write_timeout(Some(timeout));
                let _ = s.set_nodelay(true);
                self.stream = Some(s);
                self.requests_on_this_connection = 0;
            }
            let total: usize = req.chunks.iter().map(|c| c.len()).sum();
            let mut msg = Vec::new();
            msg.extend_from_slice(format!("{} {} HTTP/1.1\r\nHost: {}\r\n", req.method, req.path, self.addr).as_bytes());
            for (n, v) in &req.headers {
                if n.eq_ignore_ascii_case("content-length") || n.eq_ignore_ascii_case("transfer-encoding") || n.eq_ignore_ascii_case("connection") || n == crate::driver::VERSION_PSEUDO_HEADER || n == crate::driver::BREAK_PSEUDO_HEADER || n == crate::driver::STEP_PSEUDO_HEADER || n == crate::driver::ALSO_CL_PSEUDO_HEADER {
                    continue;
                }
                msg.extend_from_slice(n.as_bytes());
                msg.extend_from_slice(b": ");
                msg.extend_from_slice(v);
                msg.extend_from_slice(b"\r\n");
            }
            if !req.chunks.is_empty() {
                msg.extend_from_slice(format!("Content-Length: {total}\r\n").as_bytes());
            }
            msg.extend_from_slice(b"\r\n");
            for c in &req.chunks {
                msg.extend_from_slice(c);
            }
            let s = self.stream.as_mut().unwrap();
            let fresh = self.requests_on_this_connection == 0;
            if s.write_all(&msg).and_then(|_| s.flush()).is_err() {
                self.stream = None;
                if attempt == 0 && !fresh {
                    continue;
                }
                return Err(SockError::NoResponse("write failed".into()));
            }
            let mut buf: Vec<u8> = Vec::new();
            let mut tmp = [0u8; 65536];
            loop {
                if let Some((resp, used)) = parse_one(&buf, req.method == "HEAD") {
                    let _ = used;
                    self.requests_on_this_connection += 1;
                    let close = resp.headers.iter().any(|(k, v)| k.eq_ignore_ascii_case("connection") && String::from_utf8_lossy(v).to_ascii_lowercase().contains("close"));
                    if close {
                        self.stream = None;
                    }
                    return Ok(resp);
                }
                match self.stream.as_mut().unwrap().read(&mut tmp) {
                    Ok(0) => {
                        self.stream = None;
                        if buf.is_empty() && attempt == 0 && !fresh {
                            break; // the server had closed the idle connection: try once more
                        }
                        return parse_response(&buf, req.method == "HEAD").ok_or_else(|| SockError::NoResponse(format!("connection closed after {} bytes", buf.len())));
                    }
                    Ok(n) => buf.extend_from_slice(&tmp[..n]),
                    Err(e) => {
                        self.stream = None;
                        return Err(SockError::NoResponse(format!("read: {e}")));
                    }
                }
            }
        }
        Err(SockError::NoResponse("no response on a fresh connection either".into()))
    }
}

/// Parse one response with explicit framing from the front of `buf`; None if it is not complete.
fn parse_one(buf: &[u8], head_request: bool) -> Option<(HttpResp, usize)> {
    let hend = find(buf, b"\r\n\r\n")?;
    let head = String::from_utf8_lossy(&buf[..hend]).to_ascii_lowercase();
    let status: u16 = head.split(' ').nth(1)?.parse().ok()?;
    let body_start = hend + 4;
    if head_request || status == 204 || status == 304 {
        return parse_response(&buf[..body_start], head_request).map(|r| (r, body_start));
    }
    if head.contains("transfer-encoding: chunked") {
        // complete when the terminating chunk has arrived
        let end = find(&buf[body_start..], b"0\r\n\r\n")? + body_start + 5;
        return parse_response(&buf[..end], false).map(|r| (r, end));
    }
    let cl = head.lines().find_map(|l| l.strip_prefix("content-length:")).and_then(|v| v.trim().parse::<usize>().ok())?;
    if buf.len() < body_start + cl {
        return None;
    }
    parse_response(&buf[..body_start + cl], false).map(|r| (r, body_start + cl))
}

fn find(h: &[u8], n: &[u8]) -> Option<usize> {
    h.windows(n.len()).position(|w| w == n)
}

pub fn parse_response(buf: &[u8], head_request: bool) -> Option<HttpResp> {
    let hend = find(buf, b"\r\n\r\n")?;
    let head = &buf[..hend];
    let mut lines = head.split(|b| *b == b'\n').map(|l| l.strip_suffix(b"\r").unwrap_or(l));
    let status_line = lines.next()?;
    let sl = String::from_utf8_lossy(status_line);
    let mut parts = sl.split(' ');
    let _ver = parts.next()?;
    let status: u16 = parts.next()?.parse().ok()?;
    let mut headers = vec![];
    for l in lines {
        let c = l.iter().position(|b| *b == b':')?;
        let name = String::from_utf8_lossy(&l[..c]).to_string();
        let mut val = &l[c + 1..];
        while val.first() == Some(&b' ') {
            val = &val[1..];
        }
        headers.push((name, val.to_vec()));
    }
    let rest = &buf[hend + 4..];
    let get = |n: &str| headers.iter().find(|(k, _)| k.eq_ignore_ascii_case(n)).map(|(_, v)| String::from_utf8_lossy(v).to_string());
    let body = if head_request || status == 204 || status == 304 {
        vec![]
    } else if get("transfer-encoding").map(|v| v.to_ascii_lowercase().contains("chunked")).unwrap_or(false) {
        let mut out = vec![];
        let mut p = 0usize;
        loop {
            let le = find(&rest[p..], b"\r\n")?;
            let szs = String::from_utf8_lossy(&rest[p..p + le]).to_string();
            let sz = usize::from_str_radix(szs.split(';').next()?.trim(), 16).ok()?;
            p += le + 2;
            if sz == 0 {
                break;
            }
            if p + sz > rest.len() {
                return None;
            }
            out.extend_from_slice(&rest[p..p + sz]);
            p += sz + 2;
        }
        out
    } else if let Some(cl) = get("content-length") {
        let n: usize = cl.trim().parse().ok()?;
        if rest.len() < n {
            return None;
        }
        rest[..n].to_vec()
    } else {
        rest.to_vec()
    };
    Some(HttpResp { status, headers, body, service_error: false, crashed: None })
}

//! A scheduler the harness owns (DESIGN.md section 4): every storage call of every concurrent
//! request passes a gate; exactly one request thread runs between two gates.

use crate::wrap::Call;
use std::sync::atomic::{AtomicBool, Ordering};
use std::sync::mpsc;
use std::sync::{Arc, Condvar, Mutex};
use std::time::{Duration, Instant};
use taskchampion_sync_server_core::{Client, Snapshot, Storage, StorageTxn, Version};
use uuid::Uuid;

#[derive(Debug)]
pub enum Msg {
    /// thread `tid` stands at a gate before `call`
    Arrived(usize, Call),
    /// `Storage::txn` returned Ok for thread `tid`
    Acquired(usize),
    /// `Storage::txn` returned Err
    BeginFailed(usize),
    /// the transaction of thread `tid` has been dropped
    Released(usize),
    /// request `k` of thread `tid` is being issued / has been answered
    Invoke(usize, usize),
    Response(usize, usize),
    Done(usize),
}

pub struct Gates {
    tx: Mutex<mpsc::Sender<Msg>>,
    grants: Vec<(Mutex<u64>, Condvar)>,
    /// when set, gates do not block (sequential prefix / final inspection)
    pub free_run: AtomicBool,
}

impl Gates {
    pub fn new(n: usize) -> (Arc<Gates>, mpsc::Receiver<Msg>) {
        let (tx, rx) = mpsc::channel();
        let grants = (0..n).map(|_| (Mutex::new(0u64), Condvar::new())).collect();
        (Arc::new(Gates { tx: Mutex::new(tx), grants, free_run: AtomicBool::new(true) }), rx)
    }
    pub fn send(&self, m: Msg) {
        if self.free_run.load(Ordering::SeqCst) {
            return;
        }
        let _ = self.tx.lock().unwrap().send(m);
    }
    pub fn gate(&self, tid: usize, call: Call) {
        if self.free_run.load(Ordering::SeqCst) {
            return;
        }
        let (m, cv) = &self.grants[tid];
        let mut g = m.lock().unwrap();
        let _ = self.tx.lock().unwrap().send(Msg::Arrived(tid, call));
        // wait for one grant token
        while *g == 0 {
            if self.free_run.load(Ordering::SeqCst) {
                return;
            }
            let (ng, _) = cv.wait_timeout(g, Duration::from_millis(200)).unwrap();
            g = ng;
        }
        *g -= 1;
    }
    pub fn grant(&self, tid: usize) {
        let (m, cv) = &self.grants[tid];
        *m.lock().unwrap() += 1;
        cv.notify_all();
    }
    /// Let everything run to completion (used when a run is abandoned).
    pub fn release_all(&self) {
        self.free_run.store(true, Ordering::SeqCst);
        for (_, cv) in &self.grants {
            cv.notify_all();
        }
    }
}

/// Storage wrapper for one logical request thread.
pub struct SchedStorage {
    /// the backend gives up its write lock at commit (SQLite) rather than when the transaction
    /// object is dropped (memory)
    pub release_on_commit: bool,
    pub tid: usize,
    pub inner: Arc<dyn Storage>,
    pub gates: Arc<Gates>,
}

impl Storage for SchedStorage {
    fn txn(&self, client_id: Uuid) -> anyhow::Result<Box<dyn StorageTxn + '_>> {
        self.gates.gate(self.tid, Call::Begin);
        match self.inner.txn(client_id) {
            Ok(t) => {
                self.gates.send(Msg::Acquired(self.tid));
                Ok(Box::new(STxn { inner: Some(t), tid: self.tid, gates: self.gates.clone(), release_on_commit: self.release_on_commit, committed: false }))
            }
            Err(e) => {
                self.gates.send(Msg::BeginFailed(self.tid));
                Err(e)
            }
        }
    }
}

struct STxn<'a> {
    committed: bool,
    release_on_commit: bool,
    inner: Option<Box<dyn StorageTxn + 'a>>,
    tid: usize,
    gates: Arc<Gates>,
}

impl STxn<'_> {
    fn t(&mut self, call: Call) -> &mut dyn StorageTxn {
        self.gates.gate(self.tid, call);
        self.inner.as_mut().unwrap().as_mut()
    }
}

impl StorageTxn for STxn<'_> {
    fn get_client(&mut self) -> anyhow::Result<Option<Client>> {
        self.t(Call::GetClient).get_client()
    }
    fn new_client(&mut self, l: Uuid) -> anyhow::Result<()> {
        self.t(Call::NewClient).new_client(l)
    }
    fn set_snapshot(&mut self, s: Snapshot, d: Vec<u8>) -> anyhow::Result<()> {
        self.t(Call::SetSnapshot).set_snapshot(s, d)
    }
    fn get_snapshot_data(&mut self, v: Uuid) -> anyhow::Result<Option<Vec<u8>>> {
        self.t(Call::GetSnapshotData).get_snapshot_data(v)
    }
    fn get_version_by_parent(&mut self, p: Uuid) -> anyhow::Result<Option<Version>> {
        self.t(Call::GetVersionByParent).get_version_by_parent(p)
    }
    fn get_version(&mut self, v: Uuid) -> anyhow::Result<Option<Version>> {
        self.t(Call::GetVersion).get_version(v)
    }
    fn add_version(&mut self, v: Uuid, p: Uuid, h: Vec<u8>) -> anyhow::Result<()> {
        self.t(Call::AddVersion).add_version(v, p, h)
    }
    fn commit(&mut self) -> anyhow::Result<()> {
        self.gates.gate(self.tid, Call::Commit);
        if self.release_on_commit {
            // announced before the fact, like the release at drop; the connection is closed
            // right after (no further gate), so commit-and-close is one step of the schedule
            self.gates.send(Msg::Released(self.tid));
            self.committed = true;
        }
        self.inner.as_mut().unwrap().commit()
    }
}

impl Drop for STxn<'_> {
    fn drop(&mut self) {
        if self.committed {
            self.inner = None;
            return;
        }
        self.gates.gate(self.tid, Call::End);
        // announce the release first: whatever is acquired after this message is in order
        self.gates.send(Msg::Released(self.tid));
        self.inner = None;
    }
}

// ---------------------------------------------------------------------------------------------

#[derive(Clone, Copy, Debug, PartialEq, Eq)]
enum TState {
    /// between gates (or inside a real storage call)
    Running,
    Parked(Call),
    /// granted at Begin while the lock was held, and did not come back: waiting inside the
    /// backend's own lock
    Blocked,
    Done,
}

/// What the scheduler saw: the order of request invocations and responses, the decisions taken,
/// and whether two transactions were ever open at once.
#[derive(Debug, Default, Clone)]
pub struct RunLog {
    /// (is_response, tid, k) in global order
    pub events: Vec<(bool, usize, usize)>,
    /// at each decision point: (number of eligible choices, index taken)
    pub decisions: Vec<(usize, usize)>,
    /// block-level schedule: the thread owning each transaction, in begin order
    pub blocks: Vec<usize>,
    pub overlapping_txns: bool,
    pub probes_blocked: u32,
    pub probes_admitted: u32,
    /// a granted thread went silent inside a storage call while another, parked thread had a
    /// transaction open: counted as waiting for that thread's lock, and the others were let on
    pub blocked_in_call: u32,
    pub inconclusive: Option<String>,
}

pub struct SchedulerCfg {
    /// choice taken at the i-th decision point (index into the eligible list, clamped); beyond
    /// the end: 0
    pub choices: Vec<u16>,
    /// probe at the i-th opportunity (a thread parked at Begin while the lock is modelled taken)
    pub probes: Vec<bool>,
    /// how long a probed thread may stay silent before it counts as blocked in the real lock
    pub probe_wait: Duration,
    pub watchdog: Duration,
}

/// Drive `n` request threads (already started, all gated) to completion.
pub fn drive(gates: &Arc<Gates>, rx: &mpsc::Receiver<Msg>, n: usize, cfg: &SchedulerCfg) -> RunLog {
    let mut log = RunLog::default();
    let mut st = vec![TState::Running; n];
    let mut holders: Vec<usize> = vec![];
    let mut dec = 0usize;
    let mut probe_i = 0usize;
    // the thread currently being probed (granted at Begin although the lock is modelled taken)
    let mut probing: Option<(usize, Instant)> = None;
    let start = Instant::now();
    // when each thread was last let go
    let mut since: Vec<Instant> = vec![Instant::now(); n];
    // when the last message of any thread arrived
    let mut last_msg = Instant::now();
    loop {
        // 1. wait until no thread is running
        while st.iter().any(|s| *s == TState::Running) {
            let wait = match probing {
                Some((_, t0)) => cfg.probe_wait.saturating_sub(t0.elapsed()).max(Duration::from_millis(1)),
                None => Duration::from_millis(500),
            };
            let got = rx.recv_timeout(wait);
            if got.is_ok() {
                last_msg = Instant::now();
            }
            match got {
                Ok(m) => match m {
                    Msg::Arrived(t, c) => st[t] = TState::Parked(c),
                    Msg::Acquired(t) => {
                        if !holders.is_empty() {
                            log.overlapping_txns = true;
                        }
                        if let Some((p, _)) = probing {
                            if p == t {
                                if !holders.is_empty() {
                                    log.probes_admitted += 1;
                                }
                                probing = None;
                            }
                        }
                        holders.push(t);
                        log.blocks.push(t);
                    }
                    Msg::BeginFailed(t) => {
                        if let Some((p, _)) = probing {
                            if p == t {
                                probing = None;
                            }
                        }
                    }
                    Msg::Released(t) => {
                        holders.retain(|h| *h != t);
                        // a thread blocked in the real lock gets in now: wait for it
                        if holders.is_empty() || log.blocked_in_call > 0 {
                            for (i, s) in st.iter_mut().enumerate() {
                                if *s == TState::Blocked {
                                    *s = TState::Running;
                                    since[i] = Instant::now();
                                }
                            }
                        }
                    }
                    Msg::Invoke(t, k) => log.events.push((false, t, k)),
                    Msg::Response(t, k) => log.events.push((true, t, k)),
                    Msg::Done(t) => st[t] = TState::Done,
                },
                Err(mpsc::RecvTimeoutError::Timeout) => {
                    if let Some((p, t0)) = probing {
                        if t0.elapsed() >= cfg.probe_wait && st[p] == TState::Running {
                            // silent: it is waiting inside the backend's lock, as it should
                            st[p] = TState::Blocked;
                            log.probes_blocked += 1;
                            probing = None;
                        }
                    }
                    // a backend that lets two transactions be open at once (neither shipped backend
                    // does) may make a thread wait, inside some later call, for a lock the other,
                    // parked thread holds: let the others on instead of waiting for the watchdog
                    for t in 0..n {
                        let probed = probing.map(|(p, _)| p == t).unwrap_or(false);
                        if st[t] == TState::Running && !probed && since[t].elapsed() >= cfg.probe_wait * 8 && holders.iter().any(|h| *h != t && matches!(st[*h], TState::Parked(_))) {
                            st[t] = TState::Blocked;
                            log.blocked_in_call += 1;
                        }
                    }
                    // nobody is waiting at a gate (nothing the scheduler could grant), everybody
                    // left is inside the server, and not a sign of life for 30 s - six times the
                    // longest wait the backends have (the 5 s lock budget): stuck in there
                    if !st.iter().any(|s| matches!(s, TState::Parked(_))) && last_msg.elapsed() > Duration::from_secs(30) {
                        log.inconclusive = Some(format!("stuck: no request thread has reached a storage call or finished for 30 s, and none waits at a gate: threads {st:?}, holders {holders:?}"));
                        gates.release_all();
                        return log;
                    }
                    if start.elapsed() > cfg.watchdog {
                        log.inconclusive = Some(format!("watchdog: threads {st:?}, holders {holders:?}"));
                        gates.release_all();
                        return log;
                    }
                }
                Err(mpsc::RecvTimeoutError::Disconnected) => {
                    log.inconclusive = Some("scheduler channel closed".into());
                    return log;
                }
            }
        }
        if st.iter().all(|s| *s == TState::Done) {
            break;
        }
        // 2. who may go next
        let lock_taken = !holders.is_empty();
        let mut eligible: Vec<usize> = vec![];
        let mut probe_candidates: Vec<usize> = vec![];
        for (t, s) in st.iter().enumerate() {
            if let TState::Parked(c) = s {
                if *c == Call::Begin && lock_taken && !holders.contains(&t) {
                    probe_candidates.push(t);
                } else {
                    eligible.push(t);
                }
            }
        }
        let blocked_exists = st.iter().any(|s| *s == TState::Blocked);
        // probe: grant a thread at Begin although the lock is taken, and watch (at most one
        // really-blocked thread at a time)
        if !probe_candidates.is_empty() && !blocked_exists {
            let want = cfg.probes.get(probe_i).copied().unwrap_or(false);
            probe_i += 1;
            if want {
                let t = probe_candidates[0];
                st[t] = TState::Running;
                since[t] = Instant::now();
                probing = Some((t, Instant::now()));
                gates.grant(t);
                continue;
            }
        }
        if eligible.is_empty() {
            if blocked_exists {
                // only the blocked thread(s) remain and the holder cannot move: impossible unless
                // the holder is done; wait for messages
                for s in st.iter_mut() {
                    if *s == TState::Blocked {
                        *s = TState::Running;
                    }
                }
                continue;
            }
            log.inconclusive = Some(format!("no eligible thread: {st:?}, holders {holders:?}"));
            gates.release_all();
            return log;
        }
        let idx = if eligible.len() == 1 {
            0
        } else {
            let c = cfg.choices.get(dec).copied().unwrap_or(0) as usize;
            let i = c.min(eligible.len() - 1);
            log.decisions.push((eligible.len(), i));
            dec += 1;
            i
        };
        let t = eligible[idx];
        st[t] = TState::Running;
        since[t] = Instant::now();
        gates.grant(t);
        if start.elapsed() > cfg.watchdog {
            log.inconclusive = Some("watchdog".into());
            gates.release_all();
            return log;
        }
    }
    log
}

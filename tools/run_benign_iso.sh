#!/bin/bash
# usage: tools/run_benign_iso.sh [seed]  - the false-alarm test in an isolated copy (/tmp/msw/w8):
# every behaviour-preserving change under seeded/benign-*/ is applied to a private worktree of
# /repo's HEAD and all twenty quick checks of a private copy of the committed /verif are run on it.
seed="${1:-2}"
cd "$(dirname "$0")/.." || exit 2
rm -rf /tmp/msw/w8/verif
python3 -c "import sys; sys.path.insert(0,'tools'); import mutsweep; print(mutsweep.setup_worker(8))" || exit 2
for d in seeded/benign-*/; do
  n=$(basename "$d")
  ( cd /tmp/msw/w8/repo && git checkout -- . && git clean -fdq && git apply "/verif/seeded/$n/patch.diff" ) || { echo "patch $n does not apply"; continue; }
  ( cd /tmp/msw/w8/verif && tools/run_all.sh quick "$seed" 2>&1 | sed 's/KNOWN-FINDING.*//' | grep -v "^$" | grep -v "violations=0" | cut -c1-600 )
  echo "--- done $n"
done
( cd /tmp/msw/w8/repo && git checkout -- . && git clean -fdq )
echo ALLDONE

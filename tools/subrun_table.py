#!/usr/bin/env python3
"""Print the DESIGN.md table of sub-runs per check from evidence/*.json (quick tier)."""
import json, os, sys
root = os.path.dirname(os.path.dirname(os.path.abspath(__file__)))
print("| | sub-runs | wall |")
print("|---|---|---|")
for n in range(1, 21):
    pid = f"C{n:02d}"
    d = json.load(open(os.path.join(root, "evidence", pid + ".json")))
    parts = []
    for s in d["coverage"]["subruns"]:
        if s["name"].startswith("replay-tier"):
            continue
        parts.append(f"`{s['name']}` ({s['generated_cases']}{', complete' if s['exhaustive'] else ''})")
    print(f"| {pid} | {'; '.join(parts)} | {round(d['wall_s'])} s |")

#!/bin/sh
# usage (background, from a snapshot):  vp run --with-repo -- tools/run_all_isolated.sh [quick|thorough] [seed]
# Like run_all.sh, but builds against the snapshot of /repo's HEAD in $VP_RUN_REPO, so that
# patches applied to /repo meanwhile (seeded changes being tried out) do not reach this run.
# Only ever edits files of the snapshot it runs in; results are not evidence.
cd "$(dirname "$0")/.." || exit 2
[ -n "$VP_RUN_REPO" ] && [ -d "$VP_RUN_REPO" ] || { echo "VP_RUN_REPO is not set"; exit 2; }
case "$(pwd)" in /verif|/verif/*) echo "refusing to rewrite paths in /verif itself"; exit 2;; esac
sed -i "s#\"/repo/#\"$VP_RUN_REPO/#g" harness/Cargo.toml
sed -i "s#/repo/Cargo.toml#$VP_RUN_REPO/Cargo.toml#g" check
exec tools/run_all.sh "$@"

#!/bin/bash
# usage: tools/verify_seed.sh <name e.g. C02-a> <crate for the demo, e.g. taskchampion-sync-server-storage-sqlite> <demo test name> <check ids...>
# Confirms a seeded change in its scratch worktree (suite passes with it, demo fails with it and passes without),
# then runs the given checks against it in /repo and reverts.  Writes /verif/seeded/<name>/.
name="$1"; crate="$2"; demo="$3"; shift 3
wt=/tmp/seed/$name; out=/tmp/seed/$name.out
dest=/verif/seeded/$name
set -u
cd "$wt" || exit 2
[ -f "$out/patch.diff" ] || { echo "no patch.diff"; exit 2; }
demofile=$(git status --porcelain -uall | grep '^??' | awk '{print $2}' | grep -E '\.rs$' | head -5 | tr '\n' ' ')
echo "demo files: $demofile"
# 1. the patch is exactly the diff in the worktree
git diff > /tmp/seed/$name.cur.diff
if ! diff -q <(grep -v '^index ' /tmp/seed/$name.cur.diff) <(grep -v '^index ' "$out/patch.diff") >/dev/null; then echo "NOTE: worktree diff differs from patch.diff; resetting to patch.diff"; git checkout -- . ; git apply "$out/patch.diff" || exit 2; fi
# 2. suite passes with the patch (demo moved aside)
mkdir -p /tmp/seed/$name.aside; for f in $demofile; do mkdir -p /tmp/seed/$name.aside/$(dirname $f); mv $f /tmp/seed/$name.aside/$f; done
suite=$(cargo test --workspace --offline 2>&1 | grep -E "^test result" | awk '{p+=$4; f+=$6} END {print p" passed "f" failed"}')
echo "suite with patch: $suite"
for f in $demofile; do mv /tmp/seed/$name.aside/$f $f; done
# 3. demo fails with the patch
with=$(cargo test -p "$crate" --test "$demo" --offline 2>&1 | grep -E "^test result" | tail -1)
echo "demo with patch: $with"
git apply -R "$out/patch.diff"
without=$(cargo test -p "$crate" --test "$demo" --offline 2>&1 | grep -E "^test result" | tail -1)
echo "demo without patch: $without"
git apply "$out/patch.diff"
# 4. my checks
cd /repo; git diff --quiet || { echo "repo dirty"; exit 2; }
git apply "$out/patch.diff" || { echo "patch does not apply to /repo"; exit 2; }
results=""
for id in "$@"; do
  o=$(/verif/check "$id" quick 2>&1)
  line=$(echo "$o" | grep -E "^(---|INCONCLUSIVE)" | head -1 | cut -c1-350)
  sum=$(echo "$o" | grep -E "^$id quick" )
  echo "[$id] $line"; echo "[$id] $sum"
  if echo "$o" | grep -q "^VIOLATION property=$id"; then results="$results $id:caught"; else results="$results $id:missed"; fi
done
git checkout -- .
# evidence and replay files written while the change was applied are not evidence of anything
git -C /verif checkout -- evidence 2>/dev/null; rm -rf /verif/replays
echo "RESULT $name:$results"
mkdir -p "$dest"; cp "$out/patch.diff" "$dest/"; cp "$out"/*.rs "$dest/" 2>/dev/null; cp "$out/NOTES.md" "$dest/agent-notes.md" 2>/dev/null
cat > "$dest/meta.json" <<EOM
{"name": "$name", "suite_with_patch": "$suite", "demo_with_patch": "$with", "demo_without_patch": "$without", "demo_cmd": "cargo test -p $crate --test $demo --offline", "checks_run": "$results"}
EOM

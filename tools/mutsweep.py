#!/usr/bin/env python3
"""Syntactic mutation sweep over the server's sources, run in isolated copies.

usage: tools/mutsweep.py gen                      - list the mutants (writes mutation/mutants.jsonl)
       tools/mutsweep.py run <worker> <nworkers>  - worker loop (own copy of /repo HEAD and of /verif)
       tools/mutsweep.py report                   - summary of mutation/results-*.jsonl

A mutant is one token-level edit of one line outside the test modules.  For each mutant the
worker (1) builds the workspace, (2) runs the project's own test suite - a mutant that fails
either is of no interest (not "compiling and passing the existing tests") - and (3) runs the
quick checks in a fixed order until one reports a VIOLATION.  Survivors of all twenty checks
are listed for inspection: they are either equivalent mutants or gaps.

Nothing here is evidence; /repo and /verif themselves are never modified (workers live under
/tmp/msw/w<k>/ and rewrite the path dependencies of their own copy of the harness).
"""
import json, os, re, subprocess, sys, shutil, time, hashlib

ROOT = os.path.dirname(os.path.dirname(os.path.abspath(__file__)))
OUT = os.path.join(ROOT, "mutation")
FILES = [
    "core/src/server.rs",
    "core/src/inmemory.rs",
    "core/src/storage.rs",
    "sqlite/src/lib.rs",
    "server/src/lib.rs",
    "server/src/api/mod.rs",
    "server/src/api/add_version.rs",
    "server/src/api/add_snapshot.rs",
    "server/src/api/get_child_version.rs",
    "server/src/api/get_snapshot.rs",
    "server/src/args.rs",
    "server/src/bin/taskchampion-sync-server.rs",
]
# (name, regex, replacement) - applied to one occurrence at a time
OPS = [
    ("eq->ne", r"(?<![=!<>])==(?!=)", "!="),
    ("ne->eq", r"!=(?!=)", "=="),
    ("lt->le", r"(?<![<=\-])<(?![<=])(?=\s)", "<="),
    ("le->lt", r"<=(?!=)", "<"),
    ("gt->ge", r"(?<![>=\-])>(?![>=])(?=\s)", ">="),
    ("ge->gt", r">=(?!=)", ">"),
    ("and->or", r"&&", "||"),
    ("or->and", r"\|\|", "&&"),
    ("plus->minus", r"(?<=\s)\+(?=\s)", "-"),
    ("minus->plus", r"(?<=\s)-(?=\s)", "+"),
    ("pluseq->minuseq", r"\+=", "-="),
    ("minuseq->pluseq", r"-=", "+="),
    ("mul->div", r"(?<=\s)\*(?=\s)", "/"),
    ("div->mul", r"(?<=\s)/(?=\s)", "*"),
    ("true->false", r"\btrue\b", "false"),
    ("false->true", r"\bfalse\b", "true"),
    ("int+1", r"(?<![\w.\"'])(\d+)(?![\w.\"'])", lambda m: str(int(m.group(1)) + 1)),
    ("int-1", r"(?<![\w.\"'])([1-9]\d*)(?![\w.\"'])", lambda m: str(int(m.group(1)) - 1)),
    ("drop-not", r"(?<![=!])!(?=[a-zA-Z_(])(?!\w+!)", ""),
    ("is_some->is_none", r"\.is_some\(\)", ".is_none()"),
    ("is_none->is_some", r"\.is_none\(\)", ".is_some()"),
    ("max->min", r"\bmax\(", "min("),
    ("min->max", r"\bmin\(", "max("),
    ("ok_or->skip", r"\bNIL_VERSION_ID\b", "Uuid::max()"),
    ("low->high", r"SnapshotUrgency::Low\b", "SnapshotUrgency::High"),
    ("high->low", r"SnapshotUrgency::High\b", "SnapshotUrgency::Low"),
    ("none->low", r"SnapshotUrgency::None\b", "SnapshotUrgency::Low"),
    ("notfound->gone", r"GetVersionResult::NotFound\b", "GetVersionResult::Gone"),
    ("gone->notfound", r"GetVersionResult::Gone\b", "GetVersionResult::NotFound"),
    ("sql-and->or", r"\bAND\b", "OR"),
    ("sql-eq->ne", r"(?<=\s)=(?=\s\?)", "<>"),
    ("status-404->410", r"\bNOT_FOUND\b", "GONE"),
    ("status-410->404", r"StatusCode::GONE\b", "StatusCode::NOT_FOUND"),
    ("status-409->400", r"\bCONFLICT\b", "BAD_REQUEST"),
]
# statement deletions: whole lines that are a single call statement
DELETE_LINE = re.compile(r"^\s*(txn\.commit\(\)\?;|self\.[a-z_]+\(.*\)\?;|t\.commit\(\)\?;|[a-z_.]+\.(insert|remove|push|extend_from_slice|commit)\(.*\)\??;)\s*$")

ORDER = ["C02", "C08", "C10", "C14", "C12", "C01", "C07", "C11", "C18", "C13", "C09", "C06", "C15", "C16", "C20", "C05", "C19", "C03", "C17", "C04"]


def code_lines(path):
    """(lineno, text) of lines outside #[cfg(test)] modules and comments"""
    out = []
    with open(path) as f:
        lines = f.read().split("\n")
    in_test = False
    for i, l in enumerate(lines):
        if l.strip().startswith("#[cfg(test)]"):
            in_test = True
        if in_test:
            continue
        s = l.strip()
        if not s or s.startswith("//") or s.startswith("#[") or s.startswith("use ") or s.startswith("log::") or s.startswith("///"):
            continue
        out.append((i, l))
    return out


def gen(repo="/repo"):
    muts = []
    for rel in FILES:
        p = os.path.join(repo, rel)
        if not os.path.isfile(p):
            continue
        for (i, l) in code_lines(p):
            # strip trailing line comment and string-literal log text from consideration? keep simple
            code = l.split("//")[0] if '"' not in l.split("//")[0][-1:] else l
            for (name, rx, rep) in OPS:
                for m in re.finditer(rx, code):
                    new = code[: m.start()] + (rep(m) if callable(rep) else rep) + code[m.end():]
                    if new != code:
                        muts.append({"file": rel, "line": i + 1, "op": name, "col": m.start(), "old": l, "new": new + l[len(code):]})
            if DELETE_LINE.match(l):
                muts.append({"file": rel, "line": i + 1, "op": "delete-stmt", "col": 0, "old": l, "new": ""})
    for m in muts:
        m["id"] = hashlib.sha1(f"{m['file']}:{m['line']}:{m['op']}:{m['col']}".encode()).hexdigest()[:10]
    os.makedirs(OUT, exist_ok=True)
    with open(os.path.join(OUT, "mutants.jsonl"), "w") as f:
        for m in muts:
            f.write(json.dumps(m) + "\n")
    print(len(muts), "mutants")
    by = {}
    for m in muts:
        by[m["file"]] = by.get(m["file"], 0) + 1
    for k, v in sorted(by.items()):
        print(f"  {v:4d} {k}")


def sh(cmd, cwd, timeout=3600, env=None):
    e = dict(os.environ)
    e["CARGO_NET_OFFLINE"] = "true"
    if env:
        e.update(env)
    try:
        r = subprocess.run(cmd, cwd=cwd, shell=True, capture_output=True, text=True, timeout=timeout, env=e)
        return r.returncode, r.stdout + r.stderr
    except subprocess.TimeoutExpired:
        return 124, "timeout"


def setup_worker(w):
    base = f"/tmp/msw/w{w}"
    repo, verif = f"{base}/repo", f"{base}/verif"
    if not os.path.isdir(repo):
        os.makedirs(base, exist_ok=True)
        sh(f"git -C /repo worktree add --detach {repo} HEAD", "/")
    if not os.path.isdir(verif):
        os.makedirs(verif)
        # tracked files of /verif at HEAD, plus a warm copy of the harness build
        sh(f"git -C {ROOT} archive HEAD | tar -x -C {verif}", "/")
        sh(f"cp -a {ROOT}/harness/target {verif}/harness/target", "/", timeout=1800)
        sh(f"sed -i 's#\"/repo/#\"{repo}/#g' harness/Cargo.toml && sed -i 's#/repo/Cargo.toml#{repo}/Cargo.toml#g' check", verif)
    return repo, verif


def run(w, n):
    repo, verif = setup_worker(w)
    muts = [json.loads(l) for l in open(os.path.join(OUT, "mutants.jsonl"))]
    done = set()
    for fn in os.listdir(OUT):
        if fn.startswith("results-"):
            for l in open(os.path.join(OUT, fn)):
                try:
                    done.add(json.loads(l)["id"])
                except Exception:
                    pass
    res = open(os.path.join(OUT, f"results-{w}.jsonl"), "a")
    # deterministic shuffle so that every file is sampled early
    muts.sort(key=lambda m: hashlib.sha1(m["id"].encode()).hexdigest())
    for k, m in enumerate(muts):
        if k % n != w or m["id"] in done:
            continue
        if os.path.exists(os.path.join(OUT, "STOP")):
            break
        path = os.path.join(repo, m["file"])
        sh("git checkout -- .", repo)
        lines = open(path).read().split("\n")
        if lines[m["line"] - 1] != m["old"]:
            continue
        lines[m["line"] - 1] = m["new"]
        open(path, "w").write("\n".join(lines))
        t0 = time.time()
        rec = dict(m)
        rc, out = sh("cargo build --workspace --offline -q 2>&1 | tail -5", repo, 1200)
        rc, out = sh("cargo build --workspace --offline -q", repo, 1200)
        if rc != 0:
            rec["status"] = "does-not-compile"
        else:
            rc, out = sh("cargo test --workspace --offline -q 2>&1", repo, 1800)
            if rc != 0:
                rec["status"] = "killed-by-existing-tests"
            else:
                rec["status"] = "survived-all-checks"
                rec["checks"] = []
                for cid in ORDER:
                    rc, out = sh(f"./check {cid} quick", verif, 3600, env={"VERIF_SEED": "1"})
                    viol = [l for l in out.split("\n") if l.startswith("VIOLATION")]
                    first = [l for l in out.split("\n") if l.startswith("---")]
                    if viol:
                        rec["status"] = "caught"
                        rec["caught_by"] = cid
                        rec["message"] = (first[0] if first else viol[0])[:400]
                        break
                    if rc not in (0, 1):
                        rec["checks"].append({"id": cid, "rc": rc, "tail": out[-300:]})
                sh("rm -rf replays", verif)
        rec["secs"] = round(time.time() - t0, 1)
        res.write(json.dumps(rec) + "\n")
        res.flush()
    sh("git checkout -- .", repo)


def report():
    recs = {}
    for fn in sorted(os.listdir(OUT)):
        if fn.startswith("results-"):
            for l in open(os.path.join(OUT, fn)):
                try:
                    r = json.loads(l)
                    recs[r["id"]] = r
                except Exception:
                    pass
    by = {}
    for r in recs.values():
        by[r["status"]] = by.get(r["status"], 0) + 1
    print(len(recs), "mutants run:", by)
    cb = {}
    for r in recs.values():
        if r["status"] == "caught":
            cb[r["caught_by"]] = cb.get(r["caught_by"], 0) + 1
    print("first catching check:", dict(sorted(cb.items())))
    for r in recs.values():
        if r["status"] == "survived-all-checks":
            print(f"SURVIVOR {r['id']} {r['file']}:{r['line']} [{r['op']}]\n    - {r['old'].strip()}\n    + {r['new'].strip()}")
            for c in r.get("checks", []):
                print("    inconclusive:", c["id"], c["rc"])


if __name__ == "__main__":
    if sys.argv[1] == "gen":
        gen()
    elif sys.argv[1] == "run":
        run(int(sys.argv[2]), int(sys.argv[3]))
    else:
        report()

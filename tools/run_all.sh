#!/bin/sh
# usage: tools/run_all.sh [quick|thorough] [seed]  - run every check on the current tree, print one line each
tier="${1:-quick}"; seed="${2:-1}"
cd "$(dirname "$0")/.." || exit 2
fail=0
# VERIF_ORDER: another order, or a subset
for id in ${VERIF_ORDER:-C01 C02 C03 C04 C05 C06 C07 C08 C09 C10 C11 C12 C13 C14 C15 C16 C17 C18 C19 C20}; do
  out=$(VERIF_SEED=$seed ./check $id $tier 2>&1); rc=$?
  echo "$out" | grep -E "^(VIOLATION|INCONCLUSIVE|---)" | cut -c1-300
  echo "$out" | grep -E "^$id $tier" | sed "s/^/rc=$rc /"
  [ $rc -ne 0 ] && fail=1
done
exit $fail

#!/bin/sh
# usage: tools/mutate.sh <file-in-repo> <sed-expression> <ID> [<ID> ...]
# Applies a one-line mutation to /repo, runs the quick checks, and always reverts.
f="$1"; expr="$2"; shift 2
cd /repo || exit 2
if ! git diff --quiet; then echo "repo dirty, refusing"; exit 2; fi
sed -i -E "$expr" "$f"
if git diff --quiet; then echo "MUTATION DID NOT APPLY: $expr"; exit 3; fi
git diff | grep '^[-+][^-+]' | head -6
for id in "$@"; do
  out=$(/verif/check "$id" quick 2>&1)
  echo "$out" | grep -E "^(---|VIOLATION|INCONCLUSIVE|C[0-9]+ quick)" | cut -c1-400
done
git checkout -- .
# evidence and replay files written while the change was applied are not evidence of anything
git -C /verif checkout -- evidence 2>/dev/null; rm -rf /verif/replays
 

#!/bin/bash
# usage: tools/run_benign.sh <patch> [seed]  - apply a behaviour-preserving change to /repo, run every quick check, revert
patch="$1"; seed="${2:-1}"
cd /repo || exit 2
git diff --quiet || { echo "repo dirty"; exit 2; }
git apply "$patch" || { echo "patch does not apply"; exit 2; }
/verif/tools/run_all.sh quick "$seed" 2>&1 | sed 's/KNOWN-FINDING.*//' | grep -v "^$" | grep -v "violations=0" | cut -c1-600
echo "--- done $(basename $(dirname $patch))"
git checkout -- . ; git clean -fdq
# evidence and replay files written while the change was applied are not evidence of anything
git -C /verif checkout -- evidence 2>/dev/null; rm -rf /verif/replays

